#!/usr/bin/env python3
"""Splits an incremental SMT-LIB log (as written by SYMGO_SMTLOG) into standalone queries."""
import sys, os
src, outdir = sys.argv[1], sys.argv[2]
os.makedirs(outdir, exist_ok=True)
stack = [[]]
n = 0
for line in open(src):
    l = line.strip()
    if l.startswith('(push'):
        stack.append([])
    elif l.startswith('(pop'):
        stack.pop()
    elif l.startswith('(check-sat'):
        with open(os.path.join(outdir, 'q%03d.smt2' % n), 'w') as f:
            for fr in stack:
                f.writelines(fr)
        n += 1
    elif l.startswith('(set-option :timeout') or l.startswith('(echo') or l.startswith('(get-value') or l.startswith('(set-option :produce'):
        pass
    else:
        stack[-1].append(line)
print(n, 'queries')
