#!/bin/bash
# usage: each.sh <plan> <tier> <timeout-s> : runs every run of a plan separately, prints one line each
plan=$1; tier=${2:-quick}; to=${3:-300}
for r in $(python3 -c "import json,sys; print(' '.join(x['name'] for x in json.load(open('$plan'))['runs']))"); do
  s=$(date +%s)
  timeout $to /verif/bin/symgo check -plan $plan -tier $tier -no-replay -no-evidence -only $r > /tmp/each-$r.log 2>&1
  e=$?
  echo "$r exit=$e $(( $(date +%s) - s ))s $(grep -c VIOLATION /tmp/each-$r.log) viol $(grep -m1 INCONCLUSIVE /tmp/each-$r.log | cut -c1-200)"
done
