#!/usr/bin/env python3
"""Writes seeded/<id>/meta.json and seeded/RESULTS.md from the logs left by seedeval.sh."""
import json, os, re, glob
root = os.path.join(os.path.dirname(os.path.abspath(__file__)), "..", "seeded")
rows = []
for d in sorted(glob.glob(os.path.join(root, "*"))):
    if not os.path.isdir(d):
        continue
    sid = os.path.basename(d)
    notes = open(os.path.join(d, "notes.txt")).read() if os.path.exists(os.path.join(d, "notes.txt")) else ""
    checks = []
    for log in sorted(glob.glob(os.path.join(d, "check-*.log"))):
        m = re.match(r"check-(C\d+)-(\w+)\.log", os.path.basename(log))
        text = open(log).read()
        nv = len(re.findall(r"^VIOLATION", text, re.M))
        ni = len(re.findall(r"^INCONCLUSIVE", text, re.M))
        first = re.search(r"^  run=(\S+) site=(\S+)", text, re.M)
        checks.append({"property": m.group(1), "tier": m.group(2), "violations": nv, "inconclusive": ni,
                       "caught": nv > 0, "first_site": (first.group(1) + ":" + first.group(2)) if first else None})
    demo = [f for f in os.listdir(d) if f.endswith("_test.go")]
    prop = re.match(r"(C\d+)", sid).group(1)
    meta = {"seed": sid, "breaks_property": prop,
            "needs_to_manifest": notes.strip()[:1500],
            "files": {"patch": "patch.diff", "demonstration": demo},
            "confirmed_in_scratch_worktree": "tools/seedeval.sh: go build ./... ok; existing tests pass with the change (suite_failures=0); the demonstration fails with the change and passes without it",
            "checks_run_against_repo_with_change_applied": checks,
            "procedure": "git -C /repo apply patch.diff; ./check <property> quick; git -C /repo checkout -- ."}
    json.dump(meta, open(os.path.join(d, "meta.json"), "w"), indent=1)
    for c in checks:
        rows.append((sid, c["property"], c["tier"], "caught" if c["caught"] else ("inconclusive" if c["inconclusive"] else "MISSED"), c["first_site"] or ""))
with open(os.path.join(root, "RESULTS.md"), "w") as f:
    f.write("# Seeded changes vs checks\n\n| seed | check | tier | result | first failing obligation |\n|---|---|---|---|---|\n")
    for r in rows:
        f.write("| %s | %s | %s | %s | %s |\n" % r)
print(len(rows), "rows")
