#!/bin/bash
# usage: runall.sh [tier] [props...]: runs the registered checks one after the other
tier=${1:-quick}; shift
props=${@:-$(python3 -c "import json; print(' '.join(c['property_id'] for c in json.load(open('/verif/MANIFEST.json'))['checks']))")}
for p in $props; do
  s=$(date +%s)
  timeout 3600 /verif/check $p $tier > /tmp/runall-$p.log 2>&1
  e=$?
  echo "$p exit=$e $(( $(date +%s) - s ))s $(grep -c '^VIOLATION' /tmp/runall-$p.log) violations $(grep -c '^INCONCLUSIVE' /tmp/runall-$p.log) inconclusive"
done
