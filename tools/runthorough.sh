#!/bin/bash
# usage: runthorough.sh <timeout-s> props... : thorough tier, one after the other (no evidence overwrite protection)
to=$1; shift
for p in "$@"; do
  s=$(date +%s)
  timeout $to /verif/check $p thorough > /tmp/thorough-$p.log 2>&1
  e=$?
  echo "$p exit=$e $(( $(date +%s) - s ))s $(grep -c '^VIOLATION' /tmp/thorough-$p.log) violations $(grep -c '^INCONCLUSIVE' /tmp/thorough-$p.log) inconclusive"
done
