#!/usr/bin/env python3
"""Generates /verif/plans/*.json (bounds per tier live here)."""
import json, os
M = "github.com/metal-toolbox/audito-maldito"
SSHD = M + "/processors/sshd"
out = os.path.join(os.path.dirname(os.path.abspath(__file__)), "..", "plans")

def run(name, pkg, fn, quick, thorough=None, reach=None, bounds="", **kw):
    r = {"name": name, "pkg": pkg, "fn": fn, "quick": quick, "bounds": bounds}
    r.update(kw)
    if thorough is not None:
        r["thorough"] = thorough
    if reach:
        r["reach"] = reach
    return r

REGEX_PLANS = {"C05", "C06", "C11", "C17", "C19", "C07"}

def write(prop, runs, assumptions, outside, **kw):
    plan = {"property": prop, "runs": runs, "assumptions": assumptions, "outside_bounds": outside}
    if prop in REGEX_PLANS:
        plan["logic"] = "QF_BV"
    plan.update(kw)
    with open(os.path.join(out, prop + ".json"), "w") as f:
        json.dump(plan, f, indent=1)

def q(params, **kw):
    d = {"params": params, "ascii7": True}
    d.update(kw)
    return d

def t(params, **kw):
    d = {"params": params, "ascii7": False, "assert_ms": 900000, "branch_ms": 120000, "cross_check": True}
    d.update(kw)
    return d

# ---- C06 / C19: the 21 message forms
forms = [
 ("acceptedkey", "VerifC06AcceptedKey", {"U": 6, "A": 6, "K": 6, "PID": 2}, {"U": 6, "A": 6, "K": 6, "PID": 3}),
 ("acceptedkeytrailing", "VerifC06AcceptedKeyTrailing", {"U": 6, "A": 6, "K": 6, "J": 8, "PID": 2}, {"U": 6, "A": 6, "K": 6, "J": 8, "PID": 3}),
 ("acceptedcert", "VerifC06AcceptedCert", {"U": 8, "A": 8, "K": 8, "I": 16, "PID": 1, "PORT": 5, "T": 6, "SERIAL": 20, "SWEEP": 1, "FIX": 2}, {"U": 8, "A": 8, "K": 8, "I": 16, "PID": 2, "PORT": 5, "T": 6, "SERIAL": 20, "SWEEP": 1, "FIX": 2}),
 ("acceptedpw", "VerifC06AcceptedPassword", {"U": 8, "A": 8, "PID": 2}, {"U": 12, "A": 12, "PID": 3}),
 ("certinvalid", "VerifC06CertInvalid", {"R": 24}, {"R": 36}),
 ("invaliduser", "VerifC06InvalidUser", {"U": 10, "A": 10}, {"U": 15, "A": 15}),
 ("allowusers", "VerifC06NotInAllowUsers", {"U": 8, "A": 8}, {"U": 12, "A": 12}),
 ("denyusers", "VerifC06InDenyUsers", {"U": 8, "A": 8}, {"U": 12, "A": 12}),
 ("nogroup", "VerifC06NotInAnyGroup", {"U": 8, "A": 8}, {"U": 12, "A": 12}),
 ("denygroups", "VerifC06InDenyGroups", {"U": 8, "A": 8}, {"U": 12, "A": 12}),
 ("allowgroups", "VerifC06NotInAllowGroups", {"U": 8, "A": 8}, {"U": 12, "A": 12}),
 ("shellmissing", "VerifC06ShellNotExist", {"U": 8, "S": 10}, {"U": 12, "S": 15}),
 ("shellnoexec", "VerifC06ShellNotExec", {"U": 8, "S": 10}, {"U": 12, "S": 15}),
 ("rootrefused", "VerifC06RootRefused", {"A": 16}, {"A": 24}),
 ("badowner", "VerifC06BadOwner", {"U": 8, "P": 12}, {"U": 12, "P": 18}),
 ("nastyptr", "VerifC06NastyPTR", {"D": 10, "A": 10}, {"D": 15, "A": 15}),
 ("reversemap", "VerifC06ReverseMapping", {"D": 10, "A": 10}, {"D": 15, "A": 15}),
 ("nomapback", "VerifC06NoMapBack", {"D": 10, "A": 10}, {"D": 15, "A": 15}),
 ("maxauth", "VerifC06MaxAuth", {"U": 8, "A": 8}, {"U": 12, "A": 12}),
 ("revoked", "VerifC06Revoked", {"K": 8, "P": 18}, {"K": 12, "P": 27}),
 ("revokederr", "VerifC06RevokedErr", {"K": 8, "P": 24}, {"K": 12, "P": 36}),
 ("failedpw", "VerifC06FailedPassword", {"U": 10, "A": 10}, {"U": 15, "A": 15}),
]
for prop, pre in (("C06", "c06."), ("C19", "c19.")):
    # the two forms with a second, chained expression need minutes per path over the full byte
    # alphabet even at the quick sizes: their thorough tier keeps the 7-bit alphabet
    runs = [run(n, SSHD, fn, q(qp), (q(tp) if n in ("acceptedcert", "acceptedkeytrailing") else t(tp)), reach=["c06." + n + ".event"],
                bounds="field maxima " + json.dumps(qp) + " (quick) / " + json.dumps(tp) + " (thorough" + (", 7-bit bytes" if n in ("acceptedcert", "acceptedkeytrailing") else "") + "); pid 1..5 digits")
            for (n, fn, qp, tp) in forms]
    write(prop, runs,
          ["quick tier: every input byte < 0x80 (thorough: all byte values; regex classes are checked to be uniform over non-ASCII runes)",
           "field alphabets: account [A-Za-z0-9_.@$-], address/host [A-Za-z0-9.:%_-], key type [A-Za-z0-9-], hash [A-Z0-9], fingerprint [A-Za-z0-9+/=:], key id [A-Za-z0-9 ()@._-], path [A-Za-z0-9_./ -]",
           "revoked-key forms: the file path does not spell the form's own separator phrase (the message is not uniquely parseable otherwise)",
           "stubs: zap logging (empty), prometheus counters (observation log), json.Marshal of map[string]string (opaque, field-wise comparable), uuid.New, time.Now (symbolic non-decreasing clock)"],
          ["fields longer than the stated maxima", "the optional ', <methinfo>' suffix of certificate logins"],
          site_prefix=pre)

# ---- C17
c17 = []
for n, fn in (("invalid-user", "VerifC17InvalidUser"), ("failed-password", "VerifC17FailedPassword"), ("max-auth", "VerifC17MaxAuth")):
    c17.append(run(n, SSHD, fn, q({"U": 48, "A": 12}), t({"U": 100, "A": 16}), reach=["c17." + {"invalid-user": "invalid", "failed-password": "failedpw", "max-auth": "maxauth"}[n] + ".event"],
                   bounds="user name: any bytes but newline, 0/1..U; address 1..A over [0-9A-Za-z:.%_-]; port 1..5 digits"))
for n, fn, L in (("invalid-user-longest", "VerifC17InvalidUser", 100), ("failed-password-longest", "VerifC17FailedPassword", 113), ("max-auth-longest", "VerifC17MaxAuth", 113)):
    c17.append(run(n, SSHD, fn, q({"U": L, "UMIN": L, "A": 8}), t({"U": L, "UMIN": L, "A": 16}), reach=["c17." + {"invalid-user-longest": "invalid", "failed-password-longest": "failedpw", "max-auth-longest": "maxauth"}[n] + ".event"],
                   bounds="user text of exactly %d bytes (any bytes but newline): sshd's 100-byte truncation%s; address 1..A; port 1..5 digits" % (L, " plus the 13 bytes of 'invalid user ' that sshd prints in the same place" if L > 100 else "")))
write("C17", c17, ["quick tier: every input byte < 0x80", "stubs: zap, prometheus, uuid, time.Now"],
      ["user names longer than U bytes (thorough U=100 is sshd's %.100s truncation)", "addresses longer than A bytes"])

# ---- correlator histories: C01, C02, C04
TRK = M + "/processors/auditd/sessiontracker"
trk_assume = ["PIDs are two-digit decimal strings (symbolic), session ids one or two digits (symbolic, pairwise distinct); record type is a symbolic integer in 1000..1200 (covers LOGIN=1006, CRED_DISP=1104 and all others)",
              "well-formedness as in the property: each sshd PID logs in once, opens one session, LOGIN is a session's first record (C04 drops the audit-side assumptions with WILD=1)",
              "stubs: zap logging, uuid.New, time.Now (symbolic non-decreasing clock); dependency code below AuditdEvent (parser/reassembler/coalescer) is not part of this check",
              "map iteration order = insertion order (each PID matches at most one session, so RemoteLogin's early exit does not depend on it)"]
trk_out = ["histories longer than K operations; more than S sessions / L logins in flight", "the path through the real parser/reassembler and the built daemon"]
def trk(prop, pre, qp, tp, reach, extra=[]):
    write(prop, [run("history", TRK, "VerifTrackerHistory", {"params": qp, "max_steps": 20000000}, {"params": tp, "max_steps": 50000000, "cross_check": True}, reach=reach,
                     bounds="K operations over S sessions and L logins: %s (quick) / %s (thorough)" % (json.dumps(qp), json.dumps(tp)))] + extra,
          trk_assume, trk_out, site_prefix=pre)
trk("C01", "c01.", {"K": 5, "S": 2, "L": 2}, {"K": 6, "S": 3, "L": 2}, ["trk.emitted", "trk.flush-many", "trk.history-end"])
trk("C02", "c02.", {"K": 5, "S": 2, "L": 2}, {"K": 6, "S": 3, "L": 2}, ["trk.emitted", "trk.flush-many", "trk.history-end"])
trk("C04", "c04.", {"K": 3, "S": 2, "L": 1, "WILD": 1}, {"K": 4, "S": 2, "L": 1, "WILD": 1}, ["trk.emitted", "trk.history-end"],
    extra=[run("after-end-with-pid-reuse", TRK, "VerifC09Reuse", {"params": {"K": 7}, "sym_map_order": True, "max_steps": 20000000}, {"params": {"K": 9}, "sym_map_order": True, "max_steps": 50000000},
               reach=["c09.second-login", "c09.record-held-after-disposal"],
               bounds="C09's histories (two sessions opened by the same symbolic PID one after the other, each login at any position, stray late records): whatever is emitted for a session after its credential-disposal record carries that session's own identity")])

# ---- C11: arbitrary lines
kw = ["Accepted publickey", "Accepted password", "Certificate invalid", "Invalid user", "User ", "ROOT LOGIN REFUSED FROM",
      "Authentication refused for", "Nasty PTR record", "reverse mapping checking getaddrinfo for", "Address ",
      "maximum authentication attempts exceeded for", "Authentication key ", "Error checking authentication key", "Failed password for"]
def c11runs(NQ, NT, TQ, TT, cross=True):
    runs = [run("arbitrary", SSHD, "VerifC11Arbitrary", q({"N": NQ}, ascii7=False), t({"N": NT}, cross_check=cross), reach=["c11.nothing"],
                bounds="line: any bytes, 0..N; pid token: any bytes, 0..3")]
    need = {0: 56, 4: 48, 7: 34, 9: 60, 13: 40}  # tails long enough for a recognised message (for kw00: a second, complete message after the keyword)
    for i, k in enumerate(kw):
        runs.append(run("kw%02d" % i, SSHD, "VerifC11Keyword", q({"K": i, "T": max(TQ, need.get(i, 0))}, ascii7=False), t({"K": i, "T": max(TT, need.get(i, 0))}, cross_check=cross), reach=(["c11.event"] if i == 2 else ["c11.event", "c11.nothing"]),
                        bounds="keyword %r + any bytes 0..T; pid token any bytes 0..3" % k))
    return runs
c11_assume = ["no write fault is injected here (C05 covers it)", "stubs: zap, prometheus, json.Marshal, uuid, time.Now",
              "regex classes are checked per instruction to be uniform over non-ASCII runes, which makes the byte-level encoding exact for invalid UTF-8 as well"]
c11ing = [run("ingester-line", M + "/ingesters/syslog", "VerifC11IngesterLine", q({"N": 8}), t({"N": 12}), reach=["c11.ingester.processed"],
              bounds="syslog ingester Process/ParseSyslogMessage on a line of 0..N bytes but newline (quick: 7-bit bytes, thorough: any bytes): the PID token and message handed to the processor are verbatim substrings of the line (composes with the processor-level runs: substring-of is transitive)")]
write("C11", c11runs(24, 32, 28, 40, cross=False) + c11ing, c11_assume, ["lines longer than the bounds ('very long lines')"], site_prefix="c11.")

# ---- C05
c05 = []
for form, fname in ((0, "key"), (1, "cert"), (2, "password"), (3, "key-trailing-text")):
    for mode, mname in ((0, "buffered"), (1, "receiver"), (2, "cancelled-before"), (3, "cancelled-concurrently")):
        qp = {"FORM": form, "MODE": mode, "U": 4, "A": 4, "K": 4, "I": 8, "PIDLEN": 3, "FIXLEN": 1}
        tp = {"FORM": form, "MODE": mode, "U": 6, "A": 6, "K": 6, "I": 12, "PIDLEN": 6, "FIXLEN": 1}
        reach = ["c05.returned", "c05.fault"] + (["c05.login"] if mode < 2 else ["c05.cancelled-returned"])
        c05.append(run("%s-%s" % (fname, mname), SSHD, "VerifC05Accepted", q(qp), t(tp, cross_check=False), reach=reach,
                       bounds="accepted %s line, correlator %s; field lengths fixed at their maxima with symbolic contents (key id length symbolic); PID token 1..PIDLEN digits (not all zero); write fault symbolic" % (fname, mname)))
write("C05", c05, ["failure / unrecognised lines never forward a login: asserted on every path of the C06, C11 and C17 harnesses (sites *.nologin, c11.no-login-without-event, c11.login-needs-success)",
                   "schedules: every interleaving of the processor with the receiver / canceller goroutine at channel and mutex operations",
                   "stubs: zap, prometheus, json.Marshal, uuid, time.Now, sync.Mutex/atomic (engine objects), context executed from its real source"],
      ["PID tokens longer than PIDLEN digits", "field values longer than the stated maxima"], site_prefix="c05.")

# ---- C14
write("C14", [run("render", TRK, "VerifC14Render", {"params": {"R": 8}}, {"params": {"R": 12}, "cross_check": True}, reach=["c14.rendered"], no_init_extra=True,
                  bounds="result string any bytes 0..R; action/how 0..6, object fields 0..4, 0..2 process args of 0..4 bytes; 0..2 extra subject entries; login before or after the LOGIN record; two events per session"),
              run("through-the-reassembler-callback", M + "/processors/auditd", "VerifC14Callback", {"params": {}}, {"params": {}}, reach=["c14.cb.group-delivered"],
                  bounds="real reassemblerCB.ReassemblyComplete and session tracker; one SYSCALL(+EXECVE)+CWD record group parsed by the real auparse; success=yes/no; no EXECVE record or one with 1..3 quoted arguments")],
      ["the coalesced event (what aucoalesce puts into Summary/Result/Process) is the input of the render run; stubs: zap, uuid, time.Now",
       "callback run: aucoalesce.CoalesceMessages is the engine's model (type, timestamp, ses, pid, result, EXECVE arguments), cross-checked against the real function when the run's witness is replayed natively; ResolveIDs is a no-op"],
      ["aucoalesce's own summarisation of raw records (action/how/object tables built from embedded YAML)", "more than two events per session (the emitted copy is mutated after each to expose aliasing)"], site_prefix="c14.",
      init_extra=["github.com/elastic/go-libaudit/v2/auparse", "github.com/elastic/go-libaudit/v2"])

# ---- C18
HEALTH = M + "/internal/health"
write("C18", [run("sequential", HEALTH, "VerifC18Sequential", {"params": {"K": 4}}, {"params": {"K": 6}}, reach=["c18.response"],
                  bounds="K operations from {register, mark ready, request} over three component names (re-registration included)"),
              run("concurrent", HEALTH, "VerifC18Concurrent", {"params": {}, "preempt": 3}, {"params": {}}, reach=["c18.conc.response"],
                  bounds="request || AddReadiness(x) || OnReady(y), x,y over three names; interleavings at lock granularity, preemption bound 3 (quick) / unbounded (thorough)"),
              run("wait", HEALTH, "VerifC18Wait", {"params": {"TICKS": 2}, "preempt": 2}, {"params": {"TICKS": 3}}, reach=["c18.wait.ready", "c18.wait.cancelled"],
                  bounds="WaitForReady against a ready-mark or a cancellation; at most 3 ticker ticks delivered at arbitrary schedule points")],
      ["component names differ from the reserved key 'overall' (the handler overwrites it with the aggregate, which the statement permits)",
       "json.Encoder.Encode is one Write of the encoded map (stub); time.Ticker delivers ticks at arbitrary points (environment thread)"],
      ["more than three component names", "the HTTP server around the handler"], site_prefix="c18.")

# ---- C20
DIRR = M + "/processors/auditd/dirreader"
write("C20", [run("sort", DIRR, "VerifC20Sort", {"params": {"N": 3, "D": 3}}, {"params": {"N": 4, "D": 3}}, reach=["c20.sort.pair"],
                  bounds="N directory entries from {audit.log, audit.log.<1..D digits, no leading zero, optionally a directory>, foreign name}"),
              run("tail", DIRR, "VerifC20Tail", {"params": {"K": 3, "B": 2}}, {"params": {"K": 4, "B": 3}}, reach=["c20.tail.line", "c20.tail.partial", "c20.tail.rotate", "c20.tail.truncate"],
                  bounds="K operations from {append line, append two lines, append fragment, append newline, rotate, truncate}; fragments of B symbolic bytes; optional initial content (one line + one fragment)"),
              run("long-line", DIRR, "VerifC20LongLine", {"params": {"L": 4200}, "max_steps": 30000000}, {"params": {"L": 9000}, "max_steps": 60000000}, reach=["c20.long.read"],
                  bounds="readLines on 'first', a line of L+3 bytes (non-uniform concrete filler, symbolic first two and last byte), 'last'")],
      ["each file-system event is processed before the next change (the property's proviso)", "in-memory file system written in the harness; sort.Slice modelled as insertion sort calling the real less closure",
       "a truncation is visible as a size decrease (the statement's 'truncation'); stubs: sync/atomic"],
      ["lines longer than bufio's 4096-byte buffer with arbitrary content (one long line with concrete filler is covered)", "real inotify coalescing", "the watcher loop (loopWithError) around read()"], site_prefix="c20.")

# ---- C12
NP = M + "/ingesters/namedpipe"
write("C12", [run("long-record", NP, "VerifC12LongRecord", {"params": {"L": 4100}, "preempt": 0, "max_steps": 30000000}, {"params": {"L": 9000}, "preempt": 0, "max_steps": 60000000}, reach=["c12.long.returned"],
                  bounds="a record of L+3 bytes (longer than bufio's 4096-byte buffer; concrete filler, symbolic first two and last byte) between short and empty records; three ways of splitting the stream into writes"),
              run("framing", NP, "VerifC12Framing", {"params": {"T": 4}, "preempt": 0}, {"params": {"T": 5}, "preempt": 1}, reach=["c12.returned", "c12.record", "c12.callback-error"],
                  bounds="stream of exactly T arbitrary bytes (delimiter positions symbolic), every partition into write calls, callback error at every record index or never; writer closes at the end")],
      ["FIFO model: a Read returns the bytes of one pending write call (or its prefix), blocks on an empty open pipe, returns io.EOF after the writer closed; Close wakes a blocked Read with an error",
       "the callback argument may carry its single trailing delimiter (C07 decides that); bufio executed from its real source"],
      ["symbolic (as opposed to mostly concrete) contents for records beyond the buffer size", "pauses between writes (the model has order, not time)", "the kernel FIFO itself"], site_prefix="c12.")


# ---- C19 again: the message forms plus the arbitrary lines of C11 (sites c19.*)
c19runs = [run(n, SSHD, fn, q(qp), (q(tp) if n in ("acceptedcert", "acceptedkeytrailing") else t(tp)), reach=["c06." + n + ".event"],
               bounds="field maxima " + json.dumps(qp) + " (quick) / " + json.dumps(tp) + " (thorough)") for (n, fn, qp, tp) in forms]
c19runs += c11runs(24, 32, 28, 40)
write("C19", c19runs,
      ["counters are read from a private registry before/after each line (engine: observation log of CounterVec.WithLabelValues(...).Inc())",
       "lines that start with a recognised keyword but emit nothing may still count (the statement allows it)",
       "field alphabets and stubs as for C06 / C11"],
      ["fields longer than the stated maxima"], site_prefix="c19.")

# ---- C09
write("C09", [run("reuse", TRK, "VerifC09Reuse", {"params": {"K": 7}, "sym_map_order": True, "max_steps": 20000000}, {"params": {"K": 9}, "sym_map_order": True, "max_steps": 50000000},
                  reach=["c09.second-login", "c09.second-generation-emitted", "c09.record-held-after-disposal"],
                  bounds="two sessions opened by the same (symbolic) PID, three records each (LOGIN, one event, CRED_DISP) in order, each login line at any position, stray late records of the ended session; K operations; map iteration order is a decision")],
      ["the second sshd process (its LOGIN record and its login line) only appears after the first session has ended, as in the property's quantifier",
       "stubs: zap, uuid, time.Now"],
      ["more than two generations of one PID; more than one record between LOGIN and CRED_DISP"], site_prefix="c09.")


# ---- C16 (correlator API level)
write("C16", [run("history-with-cleanup", TRK, "VerifTrackerHistory", {"params": {"K": 4, "S": 2, "L": 2, "CLEANUP": 1, "CLOCKSTEP": 0}, "max_steps": 20000000},
                  {"params": {"K": 5, "S": 2, "L": 2, "CLEANUP": 1, "CLOCKSTEP": 0}, "max_steps": 50000000},
                  reach=["c16.session-discarded", "c16.login-discarded", "c16.correlated-despite-cleanup", "trk.history-end"],
                  bounds="K operations incl. both cleanup calls with symbolic cut-offs (0..1000 s) placed anywhere; login times symbolic; a session's age is bracketed by two symbolic clock readings")],
      ["equality of age and cut-off is left open, as in the statement (paths where the cut-off falls inside a session's clock bracket are not asserted)",
       "no time passes during one history (CLOCKSTEP=0): all sessions of a history have the same symbolic age, cut-offs and login times vary freely around it - this is what makes a counterexample replayable against the real clock",
       "the wiring in Auditd.Read (a one-minute ticker calling both cleanups with now-1min) is read from the source but not executed: it sits behind the real parser/reassembler, which the engine does not run",
       "stubs: zap, uuid, time.Now (symbolic non-decreasing clock)"],
      ["real-time runs of the audit processor (the 'thorough, about three minutes' part of the quantifier)", "the ticker wiring in Auditd.Read"], site_prefix="c16.")

# ---- C13
AL = M + "/ingesters/auditlog"
SL = M + "/ingesters/syslog"
AUD = M + "/processors/auditd"
c13 = []
for st, nm in ((0, "pipe-waiting-for-writer"), (1, "pipe-idle"), (2, "pipe-between-records"), (3, "pipe-after-writer-went-away")):
    c13.append(run(nm, NP, "VerifC13NamedPipe", {"params": {"STATE": st}, "preempt": 2}, {"params": {"STATE": st}, "preempt": 4}, reach=["c13.pipe.returned"],
                   bounds="named-pipe ingester cancelled while " + nm.replace("-", " ")))
for c in (0, 1, 2):
    c13.append(run("auditlog-full-buffer-cap%d" % c, AL, "VerifC13AuditLogBackPressure", {"params": {"CAP": c}}, None, reach=["c13.auditlog.blocked", "c13.auditlog.returned"],
                   bounds="audit ingester blocked handing a record to a full channel of capacity %d whose consumer has stopped" % c))
c13.append(run("auditlog-through-pipe", AL, "VerifC13AuditLogIngest", {"params": {"CAP": 1}, "preempt": 2}, {"params": {"CAP": 2}, "preempt": 3}, reach=["c13.auditlog.ingest-returned"],
               bounds="audit ingester reading its FIFO with the downstream channel full"))
for form, fname in ((0, "password"), (1, "key"), (2, "cert"), (3, "key-trailing-text")):
    c13.append(run("syslog-hand-off-" + fname, SL, "VerifC13SyslogHandOff", {"params": {"FORM": form}, "preempt": 2}, {"params": {"FORM": form}, "preempt": 3}, reach=["c13.syslog.blocked", "c13.syslog.returned"],
                   bounds="sshd pipe ingester blocked handing a login (accepted %s line) to a correlator that never receives" % fname))
c13.append(run("auditd-idle", AUD, "VerifC13AuditdIdle", {"params": {}, "preempt": 1}, {"params": {}, "preempt": 3}, reach=["c13.auditd.idle", "c13.auditd.returned"],
               bounds="audit processor idle in its select, both inputs silent"))
write("C13", c13, ["cancellation is injected once every goroutine of the worker is blocked (the property quantifies over blocking states)",
                   "'returns within a bounded time' is decided as: in every schedule the worker's call returns (no goroutine is left blocked forever on the path to its return)",
                   "FIFO model as in C12 (Close wakes a blocked Read); go-libaudit's reassembler runs from its real source; stubs: zap, time.NewTicker (environment ticks), sync"],
      ["the numeric time bound", "cancellation in the middle of delivering a record (not a blocking state)"], site_prefix="c13.")

# ---- C03
c03 = []
for prog, nm, pq, pt in ((1, "login-vs-session", 2, 6), (2, "plus-other-session", 1, 2), (3, "plus-cleanup", 1, 2), (4, "all-four", 0, "any number of preemptions, at most 2 departures from the canonical schedule (delay bound 2)")):
    thor = {"params": {"PROG": prog}, "preempt": pt, "max_steps": 50000000, "race": True}
    if prog == 4:
        thor.update({"preempt": -1, "delays": 2})
    c03.append(run(nm, TRK, "VerifC03Concurrent", {"params": {"PROG": prog}, "preempt": pq, "max_steps": 20000000, "race": True}, thor,
                   reach=["c03.all-returned"] + (["c03.matching-pid"] if prog <= 2 else []),
                   bounds="program %d: RemoteLogin(p) || AuditdEvent(LOGIN s,p'); AuditdEvent(e,s)%s%s; p,p' symbolic (equal and unequal); interleavings at lock-acquisition granularity, preemption bound %s (quick) / %s (thorough)" % (
                       prog, " || two events of another session" if prog in (2, 4) else "", " || both cleanup calls" if prog in (3, 4) else "", pq, pt)))
c03.append(run("cleanup-after-own-login", TRK, "VerifC03Concurrent", {"params": {"PROG": 5}, "preempt": 2, "max_steps": 20000000, "race": True}, {"params": {"PROG": 5}, "preempt": 4, "max_steps": 50000000, "race": True},
               reach=["c03.all-returned"],
               bounds="program 5: RemoteLogin(p); DeleteRemoteUserLoginsBefore(far future) || AuditdEvent(LOGIN s2,p2); AuditdEvent(e,s2); probe: LOGIN record of p; preemption bound 2 (quick) / 4 (thorough)"))
write("C03", c03, ["the sequential reference is computed by the same harness on fresh trackers for every order of the same deliveries; observations = emissions in order with session, action and identity, plus a probe event that exposes the residual state",
                   "cleanup cut-offs are far in the past or far in the future, so the outcome of a run does not depend on exact clock readings",
                   "code between two synchronisation operations runs atomically in the engine; that abstraction is justified by the vector-clock happens-before detector (race.go) that runs on every heap cell and map access of these programs - a race is obligation 'norace'",
                   "stubs: sync.Mutex as an engine object (every Lock is a schedule point), zap, uuid, time.Now"],
      ["more than one login or more than two sessions in flight", "weak-memory effects (Go's memory model gives SC for race-free programs)"], site_prefix="c03.")

# ---- C07
write("C07", [run("sshd-framing", SL, "VerifC07SyslogFraming", q({"M": 6}, preempt=0), t({"M": 8}, preempt=0), reach=["c07.sshd.delivered"], no_init_extra=True,
                  bounds="'<pid 1..3 digits> <0..2 extra spaces><message 1..M bytes, any byte but newline, not starting with a space>\\\\n' through the real named-pipe and syslog ingesters"),
              run("sshd-long-record", SL, "VerifC07LongRecord", q({"L": 4100}, preempt=0, max_steps=30000000), t({"L": 9000}, preempt=0, max_steps=60000000, cross_check=False), reach=["c07.long.delivered"], no_init_extra=True,
                  bounds="a short line followed by '<pid> <message of L+3 bytes>\\n' (first two and last byte symbolic, the rest concrete filler): longer than bufio's 4096-byte buffer"),
              run("audit-line", AUD, "VerifC07AuditLine", {"params": {"T": 4}, "preempt": 0}, {"params": {"T": 8}, "preempt": 0}, reach=["c07.audit.parsed"],
                  bounds="type in {LOGIN, CRED_DISP, USER_END}, two symbolic digits of seconds and of sequence, 3 millisecond digits, tail of T symbolic bytes; with and without the trailing newline"),
              run("audit-empty-line", AUD, "VerifC07AuditEmptyLine", {"params": {}, "preempt": 0}, None, reach=["c07.audit.empty"], bounds="the empty line")],
      ["sshd half is compositional: the ingester is shown to hand exactly (pid, message) to the processor; the processor is a function of that pair, so events and forwarded logins are those of the direct call (the processor is checked under C05/C06/C11/C17)",
       "audit half runs go-libaudit's real ParseLogLine / Reassembler from their source; FIFO model as in C12; rsyslog's '%msg%\\\\n' framing is an assumption of the model"],
      ["messages longer than M bytes with arbitrary content (one long message with concrete filler is covered)", "the kernel FIFO and rsyslog themselves", "compound audit events (several records per event)"], site_prefix="c07.",
      init_extra=["github.com/elastic/go-libaudit/v2/auparse", "github.com/elastic/go-libaudit/v2"])

# ---- C15
write("C15", [run("parse-lines", AUD, "VerifC15ParseLines", {"params": {"K": 3, "CLOCKSTEP": 0}, "preempt": 0}, {"params": {"K": 4, "CLOCKSTEP": 0}, "preempt": 1}, reach=["c15.parse.done", "c15.parse.malformed"],
                  bounds="K lines, each a well-formed single-record event (symbolic distinct sequence number), the empty line, or a malformed line at any position"),
              run("grouping", AUD, "VerifC15Grouping", {"params": {"CLOCKSTEP": 0}, "preempt": 0}, None, reach=["c15.group.done"],
                  bounds="two compound kernel events (3 records each, symbolic distinct sequence numbers) in every interleaving of their records"),
              run("read-errors", AUD, "VerifC15ReadErrors", {"params": {}, "preempt": 1}, {"params": {}, "preempt": 3}, reach=["c15.read.stopped"],
                  bounds="Auditd.Read with one of: login without event, login with pid <= 0 (symbolic), login without credential, malformed audit line"),
              run("callback-error", AUD, "VerifC15CallbackError", {"params": {"TICKHANG": 1, "CLOCKSTEP": 0}, "preempt": 1}, {"params": {"TICKHANG": 1, "CLOCKSTEP": 0}, "preempt": 2}, reach=["c15.cb.stopped"],
                  bounds="Auditd.Read with a LOGIN record whose pid is not a number (the correlator's error travels through the reassembler callback's non-blocking hand-off), with and without an unrelated login pending at the same time; every interleaving within the preemption bound; a state in which only timer ticks remain possible counts as 'keeps running'")],
      ["go-libaudit's ParseLogLine and Reassembler are executed from their real source; aucoalesce.CoalesceMessages is NOT executable in the engine (its normalisation tables are built by package initialisers from embedded YAML through reflection), so the hand-over of reassembled events to the correlator inside ReassemblyComplete - and with it 'write error at the k-th event' and 'unparsable PID in a LOGIN record' arriving through the reassembler - is outside this check; the correlator's own error returns for those causes are exercised in C01/C14 harnesses' noerr obligations",
       "'stops the processor' is decided as: Read returns (otherwise the harness deadlocks) with an error whose chain contains the cause",
       "no time passes between clock readings inside one run (CLOCKSTEP=0): reassembly time-outs are outside the claim"],
      ["errors of CoalesceMessages itself (the engine uses a model of it)", "reassembly time-outs and more than 8 events in flight"], site_prefix="c15.",
      init_extra=["github.com/elastic/go-libaudit/v2/auparse", "github.com/elastic/go-libaudit/v2"])

# ---- C08
CMD = M + "/cmd"
causes = ["sshd-pipe-eof", "audit-pipe-eof", "unparsable-audit-line", "sshd-path-not-a-pipe", "audit-path-not-a-pipe", "signal-while-idle", "signal-after-traffic", "signal-before-any-writer-attached", "signal-with-audit-pipe-unattached", "sshd-pipe-eof-with-audit-pipe-unattached", "unparsable-audit-line-with-sshd-pipe-unattached"]
write("C08", [run(nm, CMD, "VerifC08FailStop", {"params": {"CAUSE": i, "TICKHANG": 1}, "preempt": -2, "max_steps": 30000000}, {"params": {"CAUSE": i, "TICKHANG": 1}, "preempt": -1, "delays": 2, "max_steps": 60000000}, reach=["c08.returned"],
                  bounds="real cmd.RunNamedPipe with both pipes as FIFO models; failure cause: " + nm.replace("-", " ") + "; quick: the canonical schedule (run to block, then lowest goroutine id), thorough: every schedule that departs from it at most twice (delay bound 2, preemptions included)")
              for i, nm in enumerate(causes)],
      ["the daemon function RunNamedPipe is executed from its real source (flag parsing, worker wiring, errgroup); main()'s mapping of a non-nil error to exit status 1 (log.Fatalln) and the SIGTERM/SIGINT -> context cancellation of signal.NotifyContext are read from main.go, not executed",
       "stubs: zap logger construction (nop logger), zapr, the events output file (a write sink; helpers.OpenAuditLogFileUntilSuccessWithContext), /etc/machine-id, os.Hostname, os.Stat for the model's paths, prometheus, json.Encoder (one Write per event), FIFO model, time tickers",
       "'exits within a bounded time' is decided as: in every explored schedule RunNamedPipe returns (no goroutine it waits for stays blocked); the daemon's timers (the session tracker's clean-up ticker in Auditd.Read, the reassembler maintenance ticker) are periodic housekeeping, so a state in which only further ticks can happen after 3 delivered ticks counts as not exiting",
       "failure under a saturated audit stream is decided at worker level in C13 (audit ingester blocked on a full channel); filling the 10000-slot channel through the pipe is outside this check"],
      ["the built binary, real signals, kernel FIFO semantics, exit status as seen by a parent process", "write failures of the events file (decided at processor level in C05)", "the optional HTTP/metrics goroutines (flags off)"], site_prefix="c08.",
      init_extra=["github.com/elastic/go-libaudit/v2/auparse", "github.com/elastic/go-libaudit/v2"])

# ---- C10
write("C10", [run("one-session-through-the-daemon", CMD, "VerifC10CausalOrder", {"params": {"FORMS": 4}, "preempt": -2, "max_steps": 30000000}, {"params": {"FORMS": 4}, "preempt": -1, "delays": 1, "max_steps": 60000000, "max_paths": 400000}, reach=["c10.daemon-stopped"],
                  bounds="real cmd.RunNamedPipe; one accepted public-key login and the three records (LOGIN, USER_START, CRED_DISP) of its audit session; the sshd line at every position relative to the records; records in separate writes or one write; each of the 4 accepted-login forms; quick: the canonical schedule (run to block, then lowest goroutine id), thorough: every schedule that departs from the canonical one at most once (delay bound 1, preemptions included)"),
              run("hand-off-orders-at-processor-level", CMD, "VerifC10HandOff", {"params": {}, "preempt": 2, "max_steps": 30000000}, {"params": {}, "preempt": 3, "max_steps": 60000000}, reach=["c10.handoff-complete"],
                  bounds="real sshd processor and real session tracker sharing one event writer and an unbuffered logins channel (the wiring of RunNamedPipe); each of the 4 accepted-login forms; 0, 1 or 2 audit events of the session processed before the correlator takes the login; every interleaving of the two goroutines at channel, mutex and event-write points with at most 2 (quick) / 3 (thorough) preemptions"),
              run("each-sshd-message-form-written-once", CMD, "VerifC10WrittenOnce", {"params": {}, "preempt": 0}, {"params": {}, "preempt": 0}, reach=["c10.once.processed"],
                  bounds="one concrete message of each of the 23 recognised sshd message forms through the real processor and the shared event writer")],
      ["'no event is torn or interleaved' is assumed at the file level: encoding/json issues one Write per Encode and the events file is opened O_APPEND (both read from the sources, neither executed); the engine checks that every event is handed to the shared writer exactly once and in causal order",
       "aucoalesce.CoalesceMessages is a model in the engine (record type, timestamp, ses=, pid=, result); the native replay of the run's witness uses the real function on the same record lines",
       "stubs as for C08"],
      ["more than one session", "bursts larger than the records listed", "the built binary writing to a real file under load"], site_prefix="c10.",
      init_extra=["github.com/elastic/go-libaudit/v2/auparse", "github.com/elastic/go-libaudit/v2"])
