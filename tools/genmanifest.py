#!/usr/bin/env python3
"""Writes /verif/MANIFEST.json from the table below."""
import json, os
root = os.path.join(os.path.dirname(os.path.abspath(__file__)), "..")
TECH = "bounded symbolic execution of the real go/ssa (symgo) + SMT (z3 QF_BV), counterexamples replayed natively"
claimed = {
 "C01": ("correlator histories (K ops, S sessions, L logins) with symbolic PIDs/session ids/record types; ghost model predicts every emission; identity of each UserAction asserted after every step, an emission with no login of the opening PID available is a violation; LOGIN records carry a symbolic old-ses field", "§4 C01, §10.7"),
 "C02": ("same histories; per-step equality of the emitted list with the ghost's (count and order), including the flush of held events at every login position", "§4 C02"),
 "C04": ("histories without the audit-side well-formedness assumptions (empty/unset session, non-LOGIN openers, foreign PIDs, events after the end); nothing emitted unless correlated, checked after every step", "§4 C04"),
 "C05": ("accepted key/cert/password lines with symbolic fields and PID digits, symbolic write fault, four correlator/cancellation modes with every interleaving of processor, receiver and canceller", "§4 C05"),
 "C06": ("21 message forms as templates over one symbolic line (symbolic field boundaries and contents); Go's regexp encoded from the real syntax.Prog; one obligation per form and field", "§4 C06"),
 "C10": ("one SSH session (accepted login line + LOGIN, USER_START, CRED_DISP records) through the real cmd.RunNamedPipe with both pipes, the login line at every position relative to the records and both write groupings; every event reaches the shared writer exactly once and the UserLogin precedes every UserAction carrying its identity, in every explored schedule (quick: canonical schedule, thorough: at most one departure from it), for each of the four accepted-login forms; every hand-off order between the real sshd processor and the real session tracker sharing one writer (event writes are schedule points; preemption bound 2/3); one write per message for each of the 23 sshd message forms; torn lines at file level are an assumption (one Write per Encode, O_APPEND)", "§4 C10, §10.4, §10.7"),
 "C11": ("fully symbolic line and 14 keyword+symbolic-tail lines with a symbolic PID token; no panic, nil error, at most one event, logins only with success, every extracted value a window of the input or a placeholder; at the syslog ingester, PID token and message handed over are windows of the line for any bytes", "§4 C11, §10.7"),
 "C12": ("real bufio over a FIFO model: stream of T symbolic bytes, every partition into writes, callback error at every record index; callbacks equal the terminated records", "§4 C12"),
 "C14": ("symbolic coalesced event (result string, timestamp, summary, 0..2 args) rendered through the real tracker; field-by-field equality and non-aliasing of the stored login; SYSCALL(+EXECVE)+CWD record groups through the real reassembler callback (outcome, arguments, session, timestamp)", "§4 C14, §10.7"),
 "C17": ("the three messages with a client-chosen user name: user = any bytes but newline; recorded address/port equal the appended ones", "§4 C17"),
 "C18": ("sequential histories of register/ready/request over three names; request racing with a registration and a ready-mark; WaitForReady against ready-mark/cancel with an environment-driven ticker", "§4 C18"),
 "C19": ("the C06 and C11 harnesses with the counter observation log: exactly one increment under the matching labels per emitted UserLogin, none for lines without a keyword", "§4 C19"),
 "C03": ("five concurrent programs (login || LOGIN record + event || events of another session || both cleanups; login followed by the login clean-up || events of another session) with symbolic PIDs; every interleaving at lock-acquisition granularity within a preemption bound; the observation must equal that of some sequential order, computed on fresh trackers; no delivery may block forever", "§4 C03"),
 "C07": ("'<pid> <pad><message>\\n' with symbolic bytes through the real named-pipe and syslog ingesters reaches the processor as exactly (pid, message), also for a message longer than the reader's 4096-byte buffer; audit record lines with symbolic digits/tail parse identically with and without the newline through parseAuditLogs, go-libaudit's parser and reassembler", "§4 C07"),
 "C08": ("the real cmd.RunNamedPipe (flag parsing, worker wiring, errgroup) executed in the engine with both pipes as FIFO models; eleven failure causes (either pipe at end-of-stream, unparsable audit line, either path not a named pipe, termination signal idle / after traffic / before the writers attach, worker failure while the other pipe has no writer yet); the daemon function must return - with a non-nil error for worker failures - in every explored schedule (quick: canonical schedule, thorough: at most two departures from it)", "§4 C08, §10.4, §10.7"),
 "C09": ("two sessions opened by one symbolic PID one after the other, each login line at any position, stray late records; map iteration order is a decision; ghost model per generation", "§4 C09"),
 "C13": ("blocking states (pipe waiting for a writer / idle / between records / after its writer went away, audit ingester with a full channel of capacity 0,1,2 directly and through its pipe, login hand-off to a never-ready correlator, idle audit processor); cancellation after quiescence; every schedule within the preemption bound must let the worker return and deliver nothing afterwards", "§4 C13"),
 "C15": ("parseAuditLogs with go-libaudit's real parser and reassembler behind it: K lines (well-formed / empty / malformed at any position) yield one event per well-formed line in order or an error naming the line; two compound events in every interleaving of their records are grouped by sequence; Auditd.Read returns the correlator's and the parser's errors", "§4 C15"),
 "C16": ("correlator histories with both cleanup calls at symbolic cut-offs placed anywhere, symbolic login times and clock readings; what is emitted afterwards must follow the window rule (survivors still correlate, discarded halves never emit late)", "§4 C16"),
 "C20": ("sortLogNamesOldToNew on symbolic rotation suffixes; rotatingFile.read on an in-memory file system under append/fragment/newline/rotate/truncate histories with symbolic bytes; readLines on a line longer than the 4096-byte buffer", "§4 C20, §10.5"),
}
pending = {}
for p in []:
    pending[p] = "torn/interleaved output lines depend on encoding/json issuing one Write per Encode and on O_APPEND atomicity in the kernel, neither of which the engine executes; the assembled-pipeline ordering needs aucoalesce (reflection-built tables) inside the engine; the processor-level half (event written before the login is handed over, one write per event) is decided under C05"
checks = []
for pid in sorted(claimed):
    text, ref = claimed[pid]
    checks.append({
        "property_id": pid,
        "quick_cmd": "./check %s quick" % pid,
        "thorough_cmd": "./check %s thorough" % pid,
        "evidence_file": "/verif/evidence/%s.json" % pid,
        "replay_cmd_template": "bin/symgo replay -file {path}",
        "engine": "symgo",
        "level_claimed": {"category": "model_checking", "text": "Bounded: " + text + ". Within the stated bounds every obligation is decided by the solver (unsat = holds for every value, sat = concrete counterexample replayed against the real build); nothing is claimed outside the bounds.", "design_ref": ref},
        "level_note": "trusted: symgo's SSA semantics and string/regex/map/channel theories (cross-checked on every model and by native replay), the stubs listed in the evidence file (zap, prometheus, fmt, json, uuid, time, sync, os FIFO model), z3 5.1.0 (the thorough tier re-checks the first 16 unsat answers of each run with z3 4.8.12, except for C05 and C11 where the second solver does not terminate in time)",
        "technique": TECH,
    })
man = {
 "version": 1,
 "setup_cmd": "cd symgo && GOFLAGS=-mod=mod GOPROXY=off GOSUMDB=off GOTOOLCHAIN=local go build -o ../bin/symgo .",
 "hooks": {"guard": "verif", "enable": "harness files (//go:build verif) are injected into /repo's packages through a go/packages overlay (engine) and go test -overlay -tags verif (native replay); /repo itself carries no hook code",
           "baseline_off_cmd": "cd /repo && GOFLAGS=-mod=mod GOPROXY=off go test -vet=off -count=1 ./...", "source_commits": [], "add_only": True},
 "engines": [{"name": "symgo", "path": "/verif/symgo", "serves_properties": sorted(claimed), "kind_free_text": "symbolic interpreter for go/ssa (fork of x/tools ssa/interp) emitting QF_BV SMT-LIB2 to a persistent z3 process; path exploration by re-execution with decision vectors; native replay through go test -overlay"}],
 "checks": checks,
 "not_applicable": [{"property_id": p, "reason": r} for p, r in sorted(pending.items())],
 "notes": "exit 0 = all obligations discharged within the bounds; exit 1 + VIOLATION line = replay-confirmed counterexample; exit 2 = inconclusive (unknown, unsupported construct, vacuous harness) - never reported as a violation. Bounds per tier are in plans/*.json (generated by tools/genplans.py) and repeated in each evidence file.",
}
json.dump(man, open(os.path.join(root, "MANIFEST.json"), "w"), indent=1)
print("wrote MANIFEST.json with", len(checks), "checks")
