#!/bin/bash
# usage: seedeval.sh <seed-id> <property> [check tier] : confirms a seeded change in its scratch worktree,
# stores it under /verif/seeded/<seed-id>/, applies it to /repo, runs the property's check, reverts.
set -u
id=$1; prop=$2; tier=${3:-quick}; limit=${4:-900}
cleanup() { pkill -P $$ 2>/dev/null; pkill -x symgo 2>/dev/null; git -C /repo checkout -- . 2>/dev/null; }
trap cleanup EXIT INT TERM
export GOFLAGS=-mod=mod GOPROXY=off GOSUMDB=off GOTOOLCHAIN=local
wt=/tmp/seed/$id
patch=/tmp/seed/$id.patch.diff
demo=$(cat /tmp/seed/$id.demo_path.txt | tr -d '\n ')
pkg=./$(dirname $demo)
out=/verif/seeded/$id
mkdir -p $out
cd $wt || exit 2
git checkout -q -- . 2>/dev/null; git apply $patch || { echo "$id: patch does not apply in worktree"; exit 2; }
cp /tmp/seed/$id.demo_test.go $wt/$demo
b=$(go build ./... 2>&1 | tail -1); [ -z "$b" ] && b=ok
suite=$(go test -vet=off -count=1 -skip 'TestSeedDemo' ./... 2>&1 | grep -v "no test files" | grep -vc "^ok")
demo_with=$(go test -vet=off -count=1 -run 'TestSeedDemo' $pkg 2>&1 | tail -1 | cut -c1-60)
git apply -R $patch
demo_without=$(go test -vet=off -count=1 -run 'TestSeedDemo' $pkg 2>&1 | tail -1 | cut -c1-60)
git apply $patch
echo "$id: build=$b suite_failures=$suite demo_with_change=[$demo_with] demo_without=[$demo_without]"
cp $patch $out/patch.diff; cp /tmp/seed/$id.demo_test.go $out/$(basename $demo); cp /tmp/seed/$id.notes.txt $out/notes.txt 2>/dev/null
# run the check against /repo with the change
cd /repo && git apply $patch || { echo "$id: patch does not apply to /repo"; exit 2; }
s=$(date +%s)
timeout $limit /verif/check $prop $tier > $out/check-$prop-$tier.log 2>&1
e=$?
git -C /repo checkout -- .
echo "$id: check $prop $tier exit=$e $(( $(date +%s) - s ))s violations=$(grep -c '^VIOLATION' $out/check-$prop-$tier.log) inconclusive=$(grep -c '^INCONCLUSIVE' $out/check-$prop-$tier.log)"
grep -m2 "^  run=" $out/check-$prop-$tier.log | cut -c1-220
git -C /repo status --short | head -3
