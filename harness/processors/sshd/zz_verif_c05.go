//go:build verif

package sshd

import (
	"errors"

	"github.com/metal-toolbox/auditevent"

	"github.com/metal-toolbox/audito-maldito/internal/common"
	"github.com/metal-toolbox/audito-maldito/internal/verifrt"
)

// C05: accepted logins reach the correlator exactly once, after the write, unless cancelled;
// a write failure is returned and nothing is forwarded.
//
// FORM: 0 public key, 1 certificate, 2 password, 3 public key with trailing non-certificate text.
// MODE: 0 buffered (ready) correlator; 1 unbuffered correlator with a receiver goroutine;
//       2 never-ready correlator, context cancelled before the call;
//       3 never-ready correlator, context cancelled concurrently (also while the hand-off is blocked).
func VerifC05Accepted() {
	form := verifrt.Param("FORM", 0)
	mode := verifrt.Param("MODE", 0)
	U, A, K, I := verifrt.Param("U", 6), verifrt.Param("A", 6), verifrt.Param("K", 6), verifrt.Param("I", 8)

	// FIXLEN=1: field lengths are fixed (contents stay symbolic) except the key id; the property is
	// about the hand-off, the field extraction itself is C06's subject.
	fix := verifrt.Param("FIXLEN", 0) == 1
	fld := func(name string, min, max int, class string) verifrt.FieldSpec {
		if fix {
			return verifrt.F(name, max, max, class)
		}
		return verifrt.F(name, min, max, class)
	}
	var line, wantCred string
	switch form {
	case 0:
		t := verifrt.Template("Accepted publickey for ", fld("user", 1, U, verifClassAccount),
			" from ", fld("addr", 1, A, verifClassHost), " port ", fld("port", 1, 5, verifClassDigit),
			" ssh2: ", fld("keytype", 1, 6, verifClassKeyType), " ", fld("hash", 1, 6, verifClassHash), ":", fld("fp", 1, K, verifClassFP))
		line, wantCred = t.Line, common.UnknownUser
	case 1:
		t := verifrt.Template("Accepted publickey for ", fld("user", 1, U, verifClassAccount),
			" from ", fld("addr", 1, A, verifClassHost), " port ", fld("port", 1, 5, verifClassDigit),
			" ssh2: ", fld("keytype", 1, 6, verifClassKeyType), " ", fld("hash", 1, 6, verifClassHash), ":", fld("fp", 1, K, verifClassFP),
			" ID ", verifrt.F("keyid", 1, I, verifClassKeyID), " (serial ", fld("serial", 1, 4, verifClassDigit), ") CA ",
			fld("catype", 1, 6, verifClassKeyType), " ", fld("cahash", 1, 6, verifClassHash), ":", fld("cafp", 1, K, verifClassFP))
		line, wantCred = t.Line, t.Fields[6]
	case 3: // public key followed by text that is not a certificate description
		t := verifrt.Template("Accepted publickey for ", fld("user", 1, U, verifClassAccount),
			" from ", fld("addr", 1, A, verifClassHost), " port ", fld("port", 1, 5, verifClassDigit),
			" ssh2: ", fld("keytype", 1, 6, verifClassKeyType), " ", fld("hash", 1, 6, verifClassHash), ":", fld("fp", 1, K, verifClassFP),
			" ", verifrt.F("trailing", 1, I, `[a-z ,]`))
		line, wantCred = t.Line, common.UnknownUser
	default:
		t := verifrt.Template("Accepted password for ", fld("user", 1, U, verifClassAccount),
			" from ", fld("addr", 1, A, verifClassHost), " port ", fld("port", 1, 5, verifClassDigit), " ssh2")
		line, wantCred = t.Line, common.UnknownUser
	}

	pid := verifrt.Str("pid", 1, verifrt.Param("PIDLEN", 6), verifClassDigit)
	verifrt.Assume(verifrt.Not(verifrt.InClass(pid, `[0]`))) // a positive decimal

	capLogins := 0
	if mode == 0 {
		capLogins = 1
	}
	env := verifNewEnv(capLogins)
	env.enc.fail = verifrt.Bool("writefault")

	var got []common.RemoteUserLogin
	writesSeenAtReceive := -1
	done := make(chan struct{})
	switch mode {
	case 1:
		go func() {
			l := <-env.logins
			writesSeenAtReceive = len(env.enc.events)
			got = append(got, l)
			close(done)
		}()
	case 2:
		env.cancel()
	case 3:
		go func() { env.cancel() }()
	}

	err := env.proc.ProcessSshdLogEntry(env.ctx, SshdLogEntry{Message: line, PID: pid})
	verifrt.Reach("c05.returned")

	verifrt.Assert("c05.one-write-attempt", env.enc.calls == 1)
	if env.enc.fail {
		verifrt.Reach("c05.fault")
		verifrt.Assert("c05.fault.error-returned", err != nil)
		if err != nil {
			verifrt.Assert("c05.fault.error-is-cause", errors.Is(err, errVerifWrite))
		}
		verifrt.Assert("c05.fault.nothing-forwarded", len(env.logins) == 0)
		verifrt.Assert("c05.fault.nothing-received", len(got) == 0)
		return
	}
	verifrt.Assert("c05.noerr", err == nil)
	verifrt.Assert("c05.one-event", len(env.enc.events) == 1)
	if len(env.enc.events) != 1 {
		return
	}
	e := env.enc.events[0]
	verifrt.Assert("c05.succeeded", e.Outcome == auditevent.OutcomeSucceeded)

	switch mode {
	case 0:
		verifrt.Assert("c05.forwarded-once", len(env.logins) == 1)
		if len(env.logins) == 1 {
			got = append(got, <-env.logins)
		}
	case 1:
		<-done
		verifrt.Assert("c05.write-before-forward", writesSeenAtReceive == 1)
	case 2, 3:
		verifrt.Assert("c05.cancelled.nothing-forwarded", len(env.logins) == 0)
		verifrt.Reach("c05.cancelled-returned")
		return
	}
	verifrt.Assert("c05.exactly-one-login", len(got) == 1)
	if len(got) != 1 {
		return
	}
	verifrt.Reach("c05.login")
	l := got[0]
	// independent decimal value of the PID token
	want := 0
	for i := 0; i < len(pid); i++ {
		want = want*10 + int(pid[i]-'0')
	}
	verifrt.Assert("c05.pid", l.PID == want)
	verifrt.AssertEqStr("c05.cred", l.CredUserID, wantCred)
	verifrt.Assert("c05.identity-is-written-event", l.Source == e)
}
