//go:build verif

package sshd

import (
	"github.com/metal-toolbox/audito-maldito/internal/verifrt"
)

// C17: for the three messages that print a client-chosen user name followed by the peer address
// and port, the recorded source is the appended one, for every user name.

const (
	verifClassUserAny = `[^\n]`            // anything a client can send (sshd strips newlines)
	verifClassAddr    = `[0-9A-Za-z:.%_-]` // IPv4/IPv6 with zone id, host names
	verifClassDigit   = `[0-9]`
)

func verifC17Check(prefix string, line string, user, addr, port string) {
	env := verifNewEnv(1)
	err := env.proc.ProcessSshdLogEntry(env.ctx, SshdLogEntry{Message: line, PID: "4242"})
	verifrt.Assert(prefix+".noerr", err == nil)
	verifrt.Assert(prefix+".recorded", len(env.enc.events) == 1)
	if len(env.enc.events) != 1 {
		return
	}
	verifrt.Reach(prefix + ".event")
	e := env.enc.events[0]
	verifrt.Assert(prefix+".failed", e.Outcome == "failed")
	verifrt.AssertEqStr(prefix+".addr", e.Source.Value, addr)
	verifrt.AssertEqStr(prefix+".port", verifExtra(e.Source.Extra, "port"), port)
	verifrt.Assert(prefix+".nologin", len(env.logins) == 0)
}



func VerifC17InvalidUser() {
	U, A := verifrt.Param("U", 24), verifrt.Param("A", 12)
	umin := verifrt.Param("UMIN", 1)
	t := verifrt.Template("Invalid user ", verifrt.F("user", umin, U, verifClassUserAny),
		" from ", verifrt.F("addr", 1, A, verifClassAddr), " port ", verifrt.F("port", 1, 5, verifClassDigit))
	verifC17Check("c17.invalid", t.Line, t.Fields[0], t.Fields[1], t.Fields[2])
}

func VerifC17FailedPassword() {
	U, A := verifrt.Param("U", 24), verifrt.Param("A", 12)
	inv := verifrt.Str("invalidprefix", 0, 13, "")
	verifrt.Assume(verifrt.Or(inv == "", inv == "invalid user "))
	t := verifrt.Template("Failed password for ", verifrt.F("user", verifrt.Param("UMIN", 0), U, verifClassUserAny),
		" from ", verifrt.F("addr", 1, A, verifClassAddr), " port ", verifrt.F("port", 1, 5, verifClassDigit), " ssh2")
	_ = inv
	verifC17Check("c17.failedpw", t.Line, t.Fields[0], t.Fields[1], t.Fields[2])
}

func VerifC17MaxAuth() {
	U, A := verifrt.Param("U", 24), verifrt.Param("A", 12)
	// UMIN..U: the text sshd prints there is "invalid user " (13 bytes) plus a name of up to 100
	t := verifrt.Template("maximum authentication attempts exceeded for ", verifrt.F("user", verifrt.Param("UMIN", 0), U, verifClassUserAny),
		" from ", verifrt.F("addr", 1, A, verifClassAddr), " port ", verifrt.F("port", 1, 5, verifClassDigit), " ssh2")
	verifC17Check("c17.maxauth", t.Line, t.Fields[0], t.Fields[1], t.Fields[2])
}
