//go:build verif

package sshd

import (
	"strings"
	"time"

	"github.com/metal-toolbox/auditevent"

	"github.com/metal-toolbox/audito-maldito/internal/common"
	"github.com/metal-toolbox/audito-maldito/internal/verifrt"
)

// C06 / C19: one harness per OpenSSH message form. Every field is a window of one symbolic
// line; the expected event is known by construction. Site ids: c06.<form>.<field>, c19.<form>.*.

const (
	verifClassAccount = `[A-Za-z0-9_.@$-]`
	verifClassKeyType = `[A-Za-z0-9-]`
	verifClassHash    = `[A-Z0-9]`
	verifClassFP      = `[A-Za-z0-9+/=:]`
	verifClassKeyID   = `[A-Za-z0-9 ()@._-]`
	verifClassPath    = `[A-Za-z0-9_./ -]`
	verifClassHost    = `[A-Za-z0-9.:%_-]`
	verifClassText    = `[^\n]`
)

type verifRun struct {
	env    *verifEnv
	form   string
	pid    string
	t0, t1 time.Time
	err    error
}

func verifProcess(form, line string) *verifRun {
	r := &verifRun{env: verifNewEnv(1), form: form}
	r.pid = verifrt.Str("pid", 1, verifrt.Param("PID", 5), verifClassDigit)
	r.t0 = time.Now()
	r.err = r.env.proc.ProcessSshdLogEntry(r.env.ctx, SshdLogEntry{Message: line, PID: r.pid})
	r.t1 = time.Now()
	return r
}

// one returns the single event of the run after asserting the properties common to every form.
func (r *verifRun) one(outcome string) *auditevent.AuditEvent {
	f := "c06." + r.form
	verifrt.Assert(f+".noerr", r.err == nil)
	verifrt.Assert(f+".one-event", len(r.env.enc.events) == 1)
	if len(r.env.enc.events) != 1 {
		return nil
	}
	verifrt.Reach(f + ".event")
	e := r.env.enc.events[0]
	verifrt.Assert(f+".type", e.Type == common.ActionLoginIdentifier)
	verifrt.Assert(f+".outcome", e.Outcome == outcome)
	verifrt.Assert(f+".component", e.Component == "sshd")
	verifrt.AssertEqStr(f+".pid", e.Subjects["pid"], r.pid)
	verifrt.Assert(f+".host", e.Target["host"] == verifNode)
	verifrt.Assert(f+".machine-id", e.Target["machine-id"] == verifMID)
	verifrt.Assert(f+".source-type", e.Source.Type == "IP")
	verifrt.Assert(f+".time-lo", verifrt.TimeLE(r.t0, e.LoggedAt))
	verifrt.Assert(f+".time-hi", verifrt.TimeLE(e.LoggedAt, r.t1))
	return e
}

// counted asserts C19 for this run: exactly one increment, under the given labels.
func (r *verifRun) counted(label string) {
	f := "c19." + r.form
	counts := verifrt.LoginCounts(r.env.reg)
	if len(r.env.enc.events) == 1 {
		verifrt.Assert(f+".one-increment", len(counts) == 1)
		if len(counts) == 1 {
			verifrt.Assert(f+".label", counts[0] == label+"=1")
		}
	}
}

func VerifC06AcceptedKey() {
	U, A, K := verifrt.Param("U", 12), verifrt.Param("A", 12), verifrt.Param("K", 12)
	t := verifrt.Template("Accepted publickey for ", verifrt.F("user", 1, U, verifClassAccount),
		" from ", verifrt.F("addr", 1, A, verifClassHost), " port ", verifrt.F("port", 1, 5, verifClassDigit),
		" ssh2: ", verifrt.F("keytype", 1, 8, verifClassKeyType), " ", verifrt.F("hash", 1, 6, verifClassHash), ":", verifrt.F("fp", 1, K, verifClassFP))
	r := verifProcess("acceptedkey", t.Line)
	e := r.one(auditevent.OutcomeSucceeded)
	if e == nil {
		return
	}
	f := "c06.acceptedkey"
	verifrt.AssertEqStr(f+".account", e.Subjects["loggedAs"], t.Fields[0])
	verifrt.AssertEqStr(f+".addr", e.Source.Value, t.Fields[1])
	verifrt.AssertEqStr(f+".port", verifExtra(e.Source.Extra, "port"), t.Fields[2])
	verifrt.Assert(f+".userid", e.Subjects["userID"] == common.UnknownUser)
	alg, ok1 := verifrt.JSONField(e.Data, "Alg")
	sum, ok2 := verifrt.JSONField(e.Data, "SSHKeySum")
	verifrt.Assert(f+".has-alg", ok1)
	verifrt.Assert(f+".has-sum", ok2)
	verifrt.AssertEqStr(f+".algorithm", alg, t.Fields[3]+" "+t.Fields[4])
	verifrt.AssertEqStr(f+".fingerprint", sum, t.Fields[5])
	r.counted("ssh-key/success")
}

// verifCertField declares field idx of the certificate form. With SWEEP=1 exactly one field
// (chosen per path) has a symbolic length and the others a fixed one - their contents stay
// symbolic; with SWEEP=0 every length is symbolic at once.
func verifCertField(idx, sweep int, name string, min, max int, class string, split bool) verifrt.FieldSpec {
	if sweep >= 0 && idx != sweep {
		fix := verifrt.Param("FIX", 2)
		if fix < min {
			fix = min
		}
		if fix > max {
			fix = max
		}
		return verifrt.F(name, fix, fix, class)
	}
	if split {
		return verifrt.FS(name, min, max, class)
	}
	return verifrt.F(name, min, max, class)
}

// VerifC06AcceptedKeyTrailing: an accepted public key followed by text that is not a certificate
// description (the code's "extra padding" branch): still one succeeded event for the key.
func VerifC06AcceptedKeyTrailing() {
	U, A, K, J := verifrt.Param("U", 6), verifrt.Param("A", 6), verifrt.Param("K", 6), verifrt.Param("J", 8)
	t := verifrt.Template("Accepted publickey for ", verifrt.F("user", 1, U, verifClassAccount),
		" from ", verifrt.F("addr", 1, A, verifClassHost), " port ", verifrt.F("port", 1, 5, verifClassDigit),
		" ssh2: ", verifrt.F("keytype", 1, 8, verifClassKeyType), " ", verifrt.F("hash", 1, 6, verifClassHash), ":", verifrt.F("fp", 1, K, verifClassFP),
		" ", verifrt.F("trailing", 1, J, `[a-z ,]`))
	r := verifProcess("acceptedkeytrailing", t.Line)
	e := r.one(auditevent.OutcomeSucceeded)
	if e == nil {
		return
	}
	f := "c06.acceptedkeytrailing"
	verifrt.AssertEqStr(f+".account", e.Subjects["loggedAs"], t.Fields[0])
	verifrt.AssertEqStr(f+".addr", e.Source.Value, t.Fields[1])
	verifrt.AssertEqStr(f+".port", verifExtra(e.Source.Extra, "port"), t.Fields[2])
	verifrt.Assert(f+".userid", e.Subjects["userID"] == common.UnknownUser)
	alg, _ := verifrt.JSONField(e.Data, "Alg")
	sum, _ := verifrt.JSONField(e.Data, "SSHKeySum")
	verifrt.AssertEqStr(f+".algorithm", alg, t.Fields[3]+" "+t.Fields[4])
	verifrt.AssertEqStr(f+".fingerprint", sum, t.Fields[5])
	// a public-key login: counted once, under a key or certificate method
	counts := verifrt.LoginCounts(r.env.reg)
	verifrt.Assert("c19.acceptedkeytrailing.one-increment", len(counts) == 1)
	if len(counts) == 1 {
		verifrt.Assert("c19.acceptedkeytrailing.label", verifrt.Or(counts[0] == "ssh-cert/success=1", counts[0] == "ssh-key/success=1"))
	}
}

func VerifC06AcceptedCert() {
	U, A, K, I := verifrt.Param("U", 8), verifrt.Param("A", 8), verifrt.Param("K", 8), verifrt.Param("I", 16)
	P, T, SN := verifrt.Param("PORT", 5), verifrt.Param("T", 8), verifrt.Param("SERIAL", 20)
	sw := -1
	if verifrt.Param("SWEEP", 0) == 1 {
		sw = verifrt.Choose("sweep-field", 11)
	}
	t := verifrt.Template("Accepted publickey for ", verifCertField(0, sw, "user", 1, U, verifClassAccount, true),
		" from ", verifCertField(1, sw, "addr", 1, A, verifClassHost, true), " port ", verifCertField(2, sw, "port", 1, P, verifClassDigit, true),
		" ssh2: ", verifCertField(3, sw, "keytype", 1, T, verifClassKeyType, false), " ", verifCertField(4, sw, "hash", 1, T, verifClassHash, false),
		":", verifCertField(5, sw, "fp", 1, K, verifClassFP, false),
		" ID ", verifCertField(6, sw, "keyid", 0, I, verifClassKeyID, false), " (serial ", verifCertField(7, sw, "serial", 1, SN, verifClassDigit, false), ") CA ",
		verifCertField(8, sw, "catype", 1, T, verifClassKeyType, false), " ", verifCertField(9, sw, "cahash", 1, T, verifClassHash, false),
		":", verifCertField(10, sw, "cafp", 1, K, verifClassFP, false))
	r := verifProcess("acceptedcert", t.Line)
	e := r.one(auditevent.OutcomeSucceeded)
	if e == nil {
		return
	}
	f := "c06.acceptedcert"
	verifrt.AssertEqStr(f+".account", e.Subjects["loggedAs"], t.Fields[0])
	verifrt.AssertEqStr(f+".addr", e.Source.Value, t.Fields[1])
	verifrt.AssertEqStr(f+".port", verifExtra(e.Source.Extra, "port"), t.Fields[2])
	verifrt.AssertEqStr(f+".cert-id", e.Subjects["userID"], t.Fields[6])
	alg, _ := verifrt.JSONField(e.Data, "Alg")
	sum, _ := verifrt.JSONField(e.Data, "SSHKeySum")
	serial, ok3 := verifrt.JSONField(e.Data, "Serial")
	ca, ok4 := verifrt.JSONField(e.Data, "CA")
	verifrt.AssertEqStr(f+".algorithm", alg, t.Fields[3]+" "+t.Fields[4])
	verifrt.AssertEqStr(f+".fingerprint", sum, t.Fields[5])
	verifrt.Assert(f+".has-serial", ok3)
	verifrt.AssertEqStr(f+".serial", serial, t.Fields[7])
	verifrt.Assert(f+".has-ca", ok4)
	verifrt.AssertEqStr(f+".ca", ca, "CA "+t.Fields[8]+" "+t.Fields[9]+":"+t.Fields[10])
	r.counted("ssh-cert/success")
}

func VerifC06AcceptedPassword() {
	U, A := verifrt.Param("U", 16), verifrt.Param("A", 16)
	t := verifrt.Template("Accepted password for ", verifrt.F("user", 1, U, verifClassAccount),
		" from ", verifrt.F("addr", 1, A, verifClassHost), " port ", verifrt.F("port", 1, 5, verifClassDigit), " ssh2")
	r := verifProcess("acceptedpw", t.Line)
	e := r.one(auditevent.OutcomeSucceeded)
	if e == nil {
		return
	}
	f := "c06.acceptedpw"
	verifrt.AssertEqStr(f+".account", e.Subjects["loggedAs"], t.Fields[0])
	verifrt.AssertEqStr(f+".addr", e.Source.Value, t.Fields[1])
	verifrt.AssertEqStr(f+".port", verifExtra(e.Source.Extra, "port"), t.Fields[2])
	r.counted("password/success")
}

func VerifC06CertInvalid() {
	R := verifrt.Param("R", 24)
	t := verifrt.Template("Certificate invalid: ", verifrt.F("reason", 1, R, verifClassText))
	r := verifProcess("certinvalid", t.Line)
	e := r.one(auditevent.OutcomeFailed)
	if e == nil {
		return
	}
	f := "c06.certinvalid"
	reason, ok := verifrt.JSONField(e.Data, "reason")
	verifrt.Assert(f+".has-reason", ok)
	verifrt.AssertEqStr(f+".reason", reason, t.Fields[0])
	r.counted("ssh-cert/failure")
}

func VerifC06InvalidUser() {
	U, A := verifrt.Param("U", 16), verifrt.Param("A", 16)
	t := verifrt.Template("Invalid user ", verifrt.F("user", 1, U, verifClassAccount),
		" from ", verifrt.F("addr", 1, A, verifClassHost), " port ", verifrt.F("port", 1, 5, verifClassDigit))
	r := verifProcess("invaliduser", t.Line)
	e := r.one(auditevent.OutcomeFailed)
	if e == nil {
		return
	}
	f := "c06.invaliduser"
	verifrt.AssertEqStr(f+".account", e.Subjects["loggedAs"], t.Fields[0])
	verifrt.AssertEqStr(f+".addr", e.Source.Value, t.Fields[1])
	verifrt.AssertEqStr(f+".port", verifExtra(e.Source.Extra, "port"), t.Fields[2])
	r.counted("unknown/failure")
}

// verifUserFrom covers the five "User U from S not allowed because <why>" forms.
func verifUserFrom(form, why string) {
	U, A := verifrt.Param("U", 16), verifrt.Param("A", 16)
	t := verifrt.Template("User ", verifrt.F("user", 1, U, verifClassAccount),
		" from ", verifrt.F("addr", 1, A, verifClassHost), " not allowed because "+why)
	r := verifProcess(form, t.Line)
	e := r.one(auditevent.OutcomeFailed)
	if e == nil {
		return
	}
	f := "c06." + form
	verifrt.AssertEqStr(f+".account", e.Subjects["loggedAs"], t.Fields[0])
	verifrt.AssertEqStr(f+".addr", e.Source.Value, t.Fields[1])
	r.counted("unknown/failure")
}

func VerifC06NotInAllowUsers() { verifUserFrom("allowusers", "not listed in AllowUsers") }
func VerifC06InDenyUsers()     { verifUserFrom("denyusers", "listed in DenyUsers") }
func VerifC06NotInAnyGroup()   { verifUserFrom("nogroup", "not in any group") }
func VerifC06InDenyGroups()    { verifUserFrom("denygroups", "a group is listed in DenyGroups") }
func VerifC06NotInAllowGroups() {
	verifUserFrom("allowgroups", "none of user's groups are listed in AllowGroups")
}

func verifUserShell(form, tail string) {
	U, S := verifrt.Param("U", 16), verifrt.Param("S", 16)
	t := verifrt.Template("User ", verifrt.F("user", 1, U, verifClassAccount),
		" not allowed because shell ", verifrt.F("shell", 1, S, verifClassPath), tail)
	r := verifProcess(form, t.Line)
	e := r.one(auditevent.OutcomeFailed)
	if e == nil {
		return
	}
	f := "c06." + form
	verifrt.AssertEqStr(f+".account", e.Subjects["loggedAs"], t.Fields[0])
	verifrt.AssertEqStr(f+".shell", verifExtra(e.Metadata.Extra, "shell"), t.Fields[1])
	r.counted("unknown/failure")
}

func VerifC06ShellNotExist() { verifUserShell("shellmissing", " does not exist") }
func VerifC06ShellNotExec()  { verifUserShell("shellnoexec", " is not executable") }

func VerifC06RootRefused() {
	A := verifrt.Param("A", 24)
	t := verifrt.Template("ROOT LOGIN REFUSED FROM ", verifrt.F("addr", 1, A, verifClassHost), " port ", verifrt.F("port", 1, 5, verifClassDigit))
	r := verifProcess("rootrefused", t.Line)
	e := r.one(auditevent.OutcomeFailed)
	if e == nil {
		return
	}
	f := "c06.rootrefused"
	verifrt.Assert(f+".account", e.Subjects["loggedAs"] == "root")
	verifrt.AssertEqStr(f+".addr", e.Source.Value, t.Fields[0])
	verifrt.AssertEqStr(f+".port", verifExtra(e.Source.Extra, "port"), t.Fields[1])
	r.counted("unknown/failure")
}

func VerifC06BadOwner() {
	U, P := verifrt.Param("U", 16), verifrt.Param("P", 24)
	t := verifrt.Template("Authentication refused for ", verifrt.F("user", 1, U, verifClassAccount),
		": bad owner or modes for ", verifrt.F("path", 1, P, verifClassPath))
	r := verifProcess("badowner", t.Line)
	e := r.one(auditevent.OutcomeFailed)
	if e == nil {
		return
	}
	f := "c06.badowner"
	verifrt.AssertEqStr(f+".account", e.Subjects["loggedAs"], t.Fields[0])
	verifrt.AssertEqStr(f+".path", e.Subjects["filePath"], t.Fields[1])
	r.counted("unknown/failure")
}

func verifDNS(form string, t verifrt.Tmpl, dnsIdx, addrIdx int) {
	r := verifProcess(form, t.Line)
	e := r.one(auditevent.OutcomeFailed)
	if e == nil {
		return
	}
	f := "c06." + form
	verifrt.AssertEqStr(f+".dns", verifExtra(e.Source.Extra, "dns"), t.Fields[dnsIdx])
	verifrt.AssertEqStr(f+".addr", e.Source.Value, t.Fields[addrIdx])
	r.counted("unknown/failure")
}

func VerifC06NastyPTR() {
	D, A := verifrt.Param("D", 16), verifrt.Param("A", 16)
	verifDNS("nastyptr", verifrt.Template(`Nasty PTR record "`, verifrt.F("dns", 1, D, verifClassHost),
		`" is set up for `, verifrt.F("addr", 1, A, verifClassHost), ", ignoring"), 0, 1)
}

func VerifC06ReverseMapping() {
	D, A := verifrt.Param("D", 16), verifrt.Param("A", 16)
	verifDNS("reversemap", verifrt.Template("reverse mapping checking getaddrinfo for ", verifrt.F("dns", 1, D, verifClassHost),
		" [", verifrt.F("addr", 1, A, verifClassHost), "] failed."), 0, 1)
}

func VerifC06NoMapBack() {
	D, A := verifrt.Param("D", 16), verifrt.Param("A", 16)
	verifDNS("nomapback", verifrt.Template("Address ", verifrt.F("addr", 1, A, verifClassHost), " maps to ",
		verifrt.F("dns", 1, D, verifClassHost), ", but this does not map back to the address."), 1, 0)
}

func VerifC06MaxAuth() {
	U, A := verifrt.Param("U", 16), verifrt.Param("A", 16)
	t := verifrt.Template("maximum authentication attempts exceeded for ", verifrt.F("user", 1, U, verifClassAccount),
		" from ", verifrt.F("addr", 1, A, verifClassHost), " port ", verifrt.F("port", 1, 5, verifClassDigit), " ssh2")
	r := verifProcess("maxauth", t.Line)
	e := r.one(auditevent.OutcomeFailed)
	if e == nil {
		return
	}
	f := "c06.maxauth"
	verifrt.AssertEqStr(f+".account", e.Subjects["loggedAs"], t.Fields[0])
	verifrt.AssertEqStr(f+".addr", e.Source.Value, t.Fields[1])
	verifrt.AssertEqStr(f+".port", verifExtra(e.Source.Extra, "port"), t.Fields[2])
	r.counted("unknown/failure")
}

func verifRevoked(form, head, mid string) {
	K, P := verifrt.Param("K", 16), verifrt.Param("P", 20)
	t := verifrt.Template(head, verifrt.F("keytype", 1, 8, verifClassKeyType), " ",
		verifrt.F("fp", 1, K, verifClassFP), mid, verifrt.F("path", 1, P, verifClassPath))
	// the message format itself is ambiguous when the path spells its own separator phrase
	verifrt.Assume(verifrt.Not(verifrt.IsSubstring(t.Fields[2], strings.TrimSpace(mid))))
	r := verifProcess(form, t.Line)
	e := r.one(auditevent.OutcomeFailed)
	if e == nil {
		return
	}
	f := "c06." + form
	verifrt.AssertEqStr(f+".keytype", e.Subjects["keyType"], t.Fields[0])
	verifrt.AssertEqStr(f+".fingerprint", e.Subjects["fingerprint"], t.Fields[1])
	verifrt.AssertEqStr(f+".path", e.Subjects["filePath"], t.Fields[2])
	r.counted("unknown/failure")
}

func VerifC06Revoked() {
	verifRevoked("revoked", "Authentication key ", " revoked by file ")
}
func VerifC06RevokedErr() {
	verifRevoked("revokederr", "Error checking authentication key ", " in revoked keys file ")
}

func VerifC06FailedPassword() {
	U, A := verifrt.Param("U", 16), verifrt.Param("A", 16)
	t := verifrt.Template("Failed password for ", verifrt.F("user", 1, U, verifClassAccount),
		" from ", verifrt.F("addr", 1, A, verifClassHost), " port ", verifrt.F("port", 1, 5, verifClassDigit), " ssh2")
	r := verifProcess("failedpw", t.Line)
	e := r.one(auditevent.OutcomeFailed)
	if e == nil {
		return
	}
	f := "c06.failedpw"
	verifrt.AssertEqStr(f+".account", e.Subjects["loggedAs"], t.Fields[0])
	verifrt.AssertEqStr(f+".addr", e.Source.Value, t.Fields[1])
	verifrt.AssertEqStr(f+".port", verifExtra(e.Source.Extra, "port"), t.Fields[2])
	r.counted("unknown/failure")
}
