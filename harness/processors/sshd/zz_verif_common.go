//go:build verif

package sshd

import (
	"context"
	"errors"

	"github.com/metal-toolbox/auditevent"
	"github.com/prometheus/client_golang/prometheus"
	"go.uber.org/zap"

	"github.com/metal-toolbox/audito-maldito/internal/common"
	"github.com/metal-toolbox/audito-maldito/internal/metrics"
	"github.com/metal-toolbox/audito-maldito/internal/verifrt"
)

// verifEnc is the observation point of the sshd properties: the encoder handed to the real
// auditevent.EventWriter.
type verifEnc struct {
	events []*auditevent.AuditEvent
	fail   bool
	calls  int
}

var errVerifWrite = errors.New("verif: injected write failure")

func (e *verifEnc) Encode(v any) error {
	e.calls++
	if e.fail {
		return errVerifWrite
	}
	e.events = append(e.events, v.(*auditevent.AuditEvent))
	return nil
}

const (
	verifNode = "verif-node"
	verifMID  = "verif-machine-id"
)

type verifEnv struct {
	enc    *verifEnc
	reg    *prometheus.Registry
	logins chan common.RemoteUserLogin
	proc   *SshdProcessorer
	ctx    context.Context
	cancel context.CancelFunc
}

func verifNewEnv(loginCap int) *verifEnv {
	SetLogger(zap.NewNop().Sugar())
	e := &verifEnv{enc: &verifEnc{}, reg: prometheus.NewRegistry()}
	e.logins = make(chan common.RemoteUserLogin, loginCap)
	e.ctx, e.cancel = context.WithCancel(context.Background())
	pprov := metrics.NewPrometheusMetricsProviderForRegisterer(e.reg)
	w := auditevent.NewAuditEventWriter(e.enc)
	e.proc = NewSshdProcessor(e.ctx, e.logins, verifNode, verifMID, w, pprov).(*SshdProcessorer)
	return e
}

func verifExtra(m map[string]any, k string) string {
	s, _ := m[k].(string)
	return s
}

var _ = verifrt.Assert
