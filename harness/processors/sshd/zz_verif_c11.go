//go:build verif

package sshd

import (
	"github.com/metal-toolbox/auditevent"

	"github.com/metal-toolbox/audito-maldito/internal/common"
	"github.com/metal-toolbox/audito-maldito/internal/verifrt"
)

// C11: arbitrary bytes as an sshd line. The keyword list is fixed here from OpenSSH's format
// strings, not computed from the code under test.
var verifKeywords = []string{
	"Accepted publickey", "Accepted password", "Certificate invalid", "Invalid user", "User ",
	"ROOT LOGIN REFUSED FROM", "Authentication refused for", "Nasty PTR record",
	"reverse mapping checking getaddrinfo for", "Address ", "maximum authentication attempts exceeded for",
	"Authentication key ", "Error checking authentication key", "Failed password for",
}

func verifStartsWithKeyword(line string) bool {
	r := false
	for _, k := range verifKeywords {
		r = verifrt.Or(r, verifrt.HasPrefix(line, k))
	}
	return r
}

// verifLeafOK: a value extracted into an event is a verbatim substring of the line, the PID token,
// a configured identity, or one of the fixed placeholders.
func verifLeafOK(v, line, pid string) bool {
	ok := verifrt.IsSubstring(line, v)
	for _, c := range []string{common.UnknownUser, "root", "unknown reason", "certificate invalid", verifNode, verifMID, "IP", "sshd"} {
		ok = verifrt.Or(ok, v == c)
	}
	return verifrt.Or(ok, v == pid)
}

func verifC11Check(line, pid string) {
	env := verifNewEnv(1)
	err := env.proc.ProcessSshdLogEntry(env.ctx, SshdLogEntry{Message: line, PID: pid})
	verifrt.Assert("c11.noerr", err == nil)
	n := len(env.enc.events)
	verifrt.Assert("c11.at-most-one-event", n <= 1)
	nl := len(env.logins)
	verifrt.Assert("c11.at-most-one-login", nl <= 1)
	kw := verifStartsWithKeyword(line)
	counts := verifrt.LoginCounts(env.reg)
	if n == 0 {
		verifrt.Assert("c11.no-login-without-event", nl == 0)
		verifrt.Assert("c19.arbitrary.no-count-without-keyword", verifrt.Or(kw, len(counts) == 0))
		verifrt.Reach("c11.nothing")
		return
	}
	if n != 1 {
		return
	}
	verifrt.Reach("c11.event")
	e := env.enc.events[0]
	verifrt.Assert("c11.event-needs-keyword", kw)
	if nl == 1 {
		verifrt.Assert("c11.login-needs-success", e.Outcome == auditevent.OutcomeSucceeded)
		l := <-env.logins
		verifrt.Assert("c11.login-is-event", l.Source == e)
	}
	verifrt.Assert("c19.arbitrary.one-increment", len(counts) == 1)
	for k, v := range e.Subjects {
		verifrt.Assert("c11.verbatim.subjects."+k, verifLeafOK(v, line, pid))
	}
	verifrt.Assert("c11.verbatim.source", verifLeafOK(e.Source.Value, line, pid))
	for k, v := range e.Source.Extra {
		s, isStr := v.(string)
		verifrt.Assert("c11.verbatim.source-extra-type."+k, isStr)
		verifrt.Assert("c11.verbatim.source-extra."+k, verifLeafOK(s, line, pid))
	}
	for k, v := range e.Metadata.Extra {
		s, isStr := v.(string)
		verifrt.Assert("c11.verbatim.meta-type."+k, isStr)
		verifrt.Assert("c11.verbatim.meta."+k, verifLeafOK(s, line, pid))
	}
	for k, v := range e.Target {
		verifrt.Assert("c11.verbatim.target."+k, verifLeafOK(v, line, pid))
	}
	for _, k := range []string{"Alg", "SSHKeySum", "Serial", "CA", "error", "reason"} {
		if v, ok := verifrt.JSONField(e.Data, k); ok {
			// the data member is stored JSON-encoded: bytes outside ASCII do not survive that encoding
			// verbatim (invalid UTF-8 becomes U+FFFD), so the claim is made for ASCII values
			verifrt.Assert("c11.verbatim.data."+k, verifrt.Or(verifrt.Not(verifrt.InClass(v, `[\x00-\x7f]`)), verifLeafOK(v, line, pid)))
		}
	}
}

// VerifC11Arbitrary: the whole line is symbolic.
func VerifC11Arbitrary() {
	N := verifrt.Param("N", 40)
	line := verifrt.Str("line", 0, N, "")
	pid := verifrt.Str("pid", 0, 3, "")
	verifC11Check(line, pid)
}

// VerifC11Keyword: a recognised keyword followed by a symbolic tail (drives execution into every
// entry function). K selects the keyword.
func VerifC11Keyword() {
	T := verifrt.Param("T", 40)
	k := verifrt.Param("K", 0)
	t := verifrt.Template(verifKeywords[k], verifrt.F("tail", 0, T, ""))
	pid := verifrt.Str("pid", 0, 3, "")
	verifC11Check(t.Line, pid)
}
