//go:build verif

package auditd

import (
	"github.com/elastic/go-libaudit/v2/auparse"
	"github.com/metal-toolbox/auditevent"
	"go.uber.org/zap"

	"github.com/metal-toolbox/audito-maldito/internal/common"
	"github.com/metal-toolbox/audito-maldito/internal/verifrt"
	"github.com/metal-toolbox/audito-maldito/processors/auditd/sessiontracker"
)

// C14 through the reassembler callback: record groups (parsed by the real auparse) are handed to
// reassemblerCB.ReassemblyComplete - coalesce, ResolveIDs, the After filter - with the real
// session tracker behind it. The UserAction written for a group renders that group: outcome from
// success=yes/no, the arguments of the EXECVE record whenever there is one, session and timestamp.
func VerifC14Callback() {
	SetLogger(zap.NewNop().Sugar())
	enc := &verifEnc{}
	tr := sessiontracker.NewSessionTracker(auditevent.NewAuditEventWriter(enc), nil)
	errs := make(chan error, 4)
	cb := &reassemblerCB{au: tr, errors: errs}

	src := auditevent.NewAuditEvent(common.ActionLoginIdentifier, auditevent.EventSource{Type: "IP", Value: "127.0.0.1"},
		auditevent.OutcomeSucceeded, map[string]string{"loggedAs": "someuser", "userID": "someone"}, "sshd")
	verifrt.Assert("c14.cb.login-accepted", tr.RemoteLogin(common.RemoteUserLogin{Source: src, PID: 25007, CredUserID: "someone"}) == nil)

	parse := func(lines ...string) []*auparse.AuditMessage {
		var out []*auparse.AuditMessage
		for _, l := range lines {
			m, err := auparse.ParseLogLine(l)
			if err != nil {
				panic(err)
			}
			out = append(out, m)
		}
		return out
	}
	cb.ReassemblyComplete(parse("type=LOGIN msg=audit(1668460768.200:30166): pid=25007 uid=0 old-auid=4294967295 auid=1000 tty=(none) old-ses=4294967295 ses=499 res=1"))
	verifrt.Assert("c14.cb.session-opened", len(enc.events) == 1)

	ok := verifrt.Choose("syscall-succeeds", 2) == 1
	argc := verifrt.Choose("execve-argc", 4) // 0: the group has no EXECVE record
	succ := "no exit=-13"
	if ok {
		succ = "yes exit=0"
	}
	group := []string{"type=SYSCALL msg=audit(1668460769.100:30170): arch=c000003e syscall=59 success=" + succ +
		" a0=55d a1=55e a2=55f a3=8 items=2 ppid=25008 pid=25100 auid=1000 uid=1000 gid=1000 euid=1000 suid=1000 fsuid=1000 egid=1000 sgid=1000 fsgid=1000 tty=pts0 ses=499 comm=\"ls\" exe=\"/usr/bin/ls\" key=(null)"}
	argv := []string{"ls", "-la", "/tmp"}[:argc]
	if argc > 0 {
		ex := "type=EXECVE msg=audit(1668460769.100:30170): argc=" + string(rune('0'+argc))
		for i, a := range argv {
			ex += " a" + string(rune('0'+i)) + "=\"" + a + "\""
		}
		group = append(group, ex)
	}
	group = append(group, "type=CWD msg=audit(1668460769.100:30170): cwd=\"/home/someuser\"")
	msgs := parse(group...)
	cb.ReassemblyComplete(msgs)
	verifrt.Reach("c14.cb.group-delivered")
	verifrt.Assert("c14.cb.no-error", len(errs) == 0)
	verifrt.Assert("c14.cb.one-event-per-group", len(enc.events) == 2)
	if len(enc.events) != 2 {
		return
	}
	e := enc.events[1]
	verifrt.Assert("c14.cb.type", e.Type == common.ActionUserAction)
	verifrt.Assert("c14.cb.component", e.Component == "auditd")
	verifrt.Assert("c14.cb.session", e.Metadata.AuditID == "499")
	verifrt.Assert("c14.cb.timestamp", e.LoggedAt.Equal(msgs[0].Timestamp))
	want := auditevent.OutcomeFailed
	if ok {
		want = auditevent.OutcomeSucceeded
	}
	verifrt.Assert("c14.cb.outcome", e.Outcome == want)
	args, has := e.Metadata.Extra["process_args"].([]string)
	verifrt.Assert("c14.cb.args-iff-execve", has == (argc > 0))
	if has {
		same := len(args) == len(argv)
		for i := 0; same && i < len(argv); i++ {
			same = args[i] == argv[i]
		}
		verifrt.Assert("c14.cb.args-are-the-execve-arguments", same)
	}
	verifrt.Assert("c14.cb.identity", e.Subjects["loggedAs"] == "someuser")
}
