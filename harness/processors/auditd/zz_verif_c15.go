//go:build verif

package auditd

import (
	"context"
	"errors"
	"time"

	"github.com/elastic/go-libaudit/v2"
	"github.com/elastic/go-libaudit/v2/auparse"
	"github.com/metal-toolbox/auditevent"
	"go.uber.org/zap"

	"github.com/metal-toolbox/audito-maldito/internal/common"
	"github.com/metal-toolbox/audito-maldito/internal/health"
	"github.com/metal-toolbox/audito-maldito/internal/verifrt"
	"github.com/metal-toolbox/audito-maldito/processors/auditd/sessiontracker"
)

// C15 (a): every non-empty line is parsed and pushed exactly once, in order, or stops the parser
// with an error that identifies it. A capturing libaudit.Stream behind go-libaudit's real
// reassembler is the observer (single-record event types complete immediately).
func VerifC15ParseLines() {
	K := verifrt.Param("K", 3)
	st := &verifStream{}
	reass, err := libaudit.NewReassembler(8, 2*time.Second, st)
	if err != nil {
		panic(err)
	}
	lines := make(chan string, K+1)
	var sent []string
	var wantSeq []string
	badAt := -1
	for i := 0; i < K; i++ {
		switch verifrt.Choose("line-kind", 4) {
		case 3: // a non-empty line of white space only: malformed, must not be skipped
			if badAt >= 0 {
				return
			}
			sent = append(sent, verifrt.Str("blank", 1, 2, `[ \t\r]`))
			badAt = i
		case 0: // a well-formed single-record event
			t := verifrt.Template("type=LOGIN msg=audit(10.000:", verifrt.F("seq", 2, 2, `[0-9]`), "): pid=1")
			verifrt.Assume(t.Fields[0][0] != '0')
			for _, s := range wantSeq {
				verifrt.Assume(s != t.Fields[0]) // distinct events
			}
			sent = append(sent, t.Line)
			if badAt < 0 {
				wantSeq = append(wantSeq, t.Fields[0])
			}
		case 1: // the empty line (the only one that may be skipped)
			sent = append(sent, "")
		case 2: // a malformed line: no audit header
			if badAt >= 0 {
				return
			}
			g := verifrt.Str("garbage", 3, 3, `[a-z]`)
			sent = append(sent, "junk "+g)
			badAt = i
		}
	}
	for _, l := range sent {
		lines <- l
	}
	ctx, cancel := context.WithCancel(context.Background())
	done := make(chan error, 1)
	go func() { done <- parseAuditLogs(ctx, lines, reass) }()
	verifrt.Quiesce()
	cancel()
	perr := <-done
	reass.Close()
	verifrt.Reach("c15.parse.done")
	if badAt >= 0 {
		verifrt.Reach("c15.parse.malformed")
		var pe *parseAuditLogsError
		verifrt.Assert("c15.parse.error-returned", errors.As(perr, &pe))
		if pe != nil {
			verifrt.Assert("c15.parse.error-has-cause", pe.Unwrap() != nil)
			verifrt.Assert("c15.parse.error-identifies-line", verifrt.MsgMentions(pe.Error(), sent[badAt]))
		}
	} else {
		verifrt.Assert("c15.parse.only-cancel-stops-it", perr == context.Canceled)
	}
	// every well-formed line before the failure produced exactly one event, in order
	verifrt.Assert("c15.parse.one-event-per-line", len(st.groups) == len(wantSeq))
	if len(st.groups) != len(wantSeq) {
		return
	}
	for i, g := range st.groups {
		verifrt.Assert("c15.parse.single-record", len(g) == 1)
		if len(g) == 1 {
			want := uint32(wantSeq[i][0]-'0')*10 + uint32(wantSeq[i][1]-'0')
			verifrt.Assert("c15.parse.in-order", g[0].Sequence == want)
		}
	}
}

// C15 (b): records of one kernel event are grouped into a single event even when interleaved
// with records of another event.
func VerifC15Grouping() {
	st := &verifStream{}
	reass, err := libaudit.NewReassembler(8, 2*time.Second, st)
	if err != nil {
		panic(err)
	}
	seqA := verifrt.Str("seqA", 2, 2, `[1-9]`)
	seqB := verifrt.Str("seqB", 2, 2, `[1-9]`)
	verifrt.Assume(seqA != seqB)
	mk := func(typ, seq string) string { return "type=" + typ + " msg=audit(10.000:" + seq + "): x=1" }
	a := []string{mk("SYSCALL", seqA), mk("EXECVE", seqA), mk("EOE", seqA)}
	b := []string{mk("SYSCALL", seqB), mk("CWD", seqB), mk("EOE", seqB)}
	// every interleaving of the two record sequences
	var order []string
	ia, ib := 0, 0
	for ia < len(a) || ib < len(b) {
		pickA := ib >= len(b)
		if ia < len(a) && ib < len(b) {
			pickA = verifrt.Choose("next", 2) == 0
		}
		if pickA {
			order = append(order, a[ia])
			ia++
		} else {
			order = append(order, b[ib])
			ib++
		}
	}
	lines := make(chan string, len(order))
	for _, l := range order {
		lines <- l
	}
	ctx, cancel := context.WithCancel(context.Background())
	done := make(chan error, 1)
	go func() { done <- parseAuditLogs(ctx, lines, reass) }()
	verifrt.Quiesce()
	cancel()
	<-done
	reass.Close()
	verifrt.Reach("c15.group.done")
	verifrt.Assert("c15.group.two-events", len(st.groups) == 2)
	for _, g := range st.groups {
		verifrt.Assert("c15.group.records-of-one-event", len(g) >= 2)
		for _, m := range g {
			verifrt.Assert("c15.group.same-sequence", m.Sequence == g[0].Sequence)
		}
	}
}

// C15 (c): failures reported by the correlator stop the audit processor with that error.
func VerifC15ReadErrors() {
	SetLogger(zap.NewNop().Sugar())
	enc := &verifEnc{}
	audits := make(chan string, 2)
	logins := make(chan common.RemoteUserLogin, 1)
	a := &Auditd{Audits: audits, Logins: logins, EventW: auditevent.NewAuditEventWriter(enc), Health: health.NewHealth()}
	kind := verifrt.Choose("failure", 4)
	good := auditevent.NewAuditEvent(common.ActionLoginIdentifier, auditevent.EventSource{Type: "IP", Value: "a"}, auditevent.OutcomeSucceeded, map[string]string{"loggedAs": "u"}, "sshd")
	switch kind {
	case 0:
		logins <- common.RemoteUserLogin{Source: nil, PID: 5, CredUserID: "x"}
	case 1:
		logins <- common.RemoteUserLogin{Source: good, PID: verifrt.Int("pid", -5, 0), CredUserID: "x"}
	case 2:
		logins <- common.RemoteUserLogin{Source: good, PID: 5, CredUserID: ""}
	case 3:
		audits <- "this is not an audit record"
	}
	ctx, cancel := context.WithCancel(context.Background())
	defer cancel()
	done := make(chan error, 1)
	go func() { done <- a.Read(ctx) }()
	err := <-done // a processor that swallows the failure keeps running: shows up as a hang
	verifrt.Reach("c15.read.stopped")
	verifrt.Assert("c15.read.error", err != nil)
	if err == nil {
		return
	}
	if kind < 3 {
		var te *sessiontracker.SessionTrackerError
		verifrt.Assert("c15.read.login-error-kept", errors.As(err, &te))
		if te != nil {
			verifrt.Assert("c15.read.login-error-kind", te.RemoteLoginFailed())
		}
	} else {
		var pe *parseAuditLogsError
		verifrt.Assert("c15.read.parse-error-kept", errors.As(err, &pe))
		if pe != nil {
			verifrt.Assert("c15.read.parse-error-identifies-line", verifrt.MsgMentions(pe.Error(), "this is not an audit record"))
		}
	}
	var _ = auparse.AUDIT_LOGIN
}

// C15 (d): a failure reported by the correlator from inside the reassembler callback (here: a
// LOGIN record whose pid is not a number) stops the audit processor with that error - also when
// Read is busy with something else (an unrelated login) at the moment the callback reports it.
func VerifC15CallbackError() {
	SetLogger(zap.NewNop().Sugar())
	enc := &verifEnc{}
	audits := make(chan string, 2)
	logins := make(chan common.RemoteUserLogin, 1)
	a := &Auditd{Audits: audits, Logins: logins, EventW: auditevent.NewAuditEventWriter(enc), Health: health.NewHealth()}
	good := auditevent.NewAuditEvent(common.ActionLoginIdentifier, auditevent.EventSource{Type: "IP", Value: "a"}, auditevent.OutcomeSucceeded, map[string]string{"loggedAs": "u"}, "sshd")
	if verifrt.Bool("a-login-is-pending-too") {
		logins <- common.RemoteUserLogin{Source: good, PID: 31000, CredUserID: "x"}
	}
	audits <- "type=LOGIN msg=audit(1668460768.200:30166): pid=abc uid=0 old-auid=4294967295 auid=1000 tty=(none) old-ses=4294967295 ses=499 res=1"
	ctx, cancel := context.WithCancel(context.Background())
	defer cancel()
	done := make(chan error, 1)
	go func() { done <- a.Read(ctx) }()
	err := <-done // a processor that drops the failure keeps running: shows up as a hang
	verifrt.Reach("c15.cb.stopped")
	verifrt.Assert("c15.cb.error", err != nil)
	if err == nil {
		return
	}
	var ce *reassemblerCBError
	verifrt.Assert("c15.cb.error-kept", errors.As(err, &ce))
	verifrt.Assert("c15.cb.nothing-emitted", len(enc.events) == 0)
}
