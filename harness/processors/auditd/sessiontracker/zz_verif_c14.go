//go:build verif

package sessiontracker

import (
	"github.com/elastic/go-libaudit/v2/aucoalesce"
	"github.com/elastic/go-libaudit/v2/auparse"
	"github.com/metal-toolbox/auditevent"

	"github.com/metal-toolbox/audito-maldito/internal/common"
	"github.com/metal-toolbox/audito-maldito/internal/verifrt"
)

// C14: a UserAction renders the audit event faithfully and never alters the stored login.
func VerifC14Render() {
	R := verifrt.Param("R", 8)
	enc := &verifEnc{}
	tr := NewSessionTracker(auditevent.NewAuditEventWriter(enc), nil)

	// login with a symbolic number of extra subject entries
	rul := verifMakeLogin(0, 77, 5)
	extraSubjects := verifrt.Int("extra-subjects", 0, 2)
	if extraSubjects >= 1 {
		rul.Source.Subjects["x1"] = verifrt.Str("subj1", 0, 4, "")
	}
	if extraSubjects >= 2 {
		rul.Source.Subjects["x2"] = verifrt.Str("subj2", 0, 4, "")
	}
	snapSubjects := map[string]string{}
	for k, v := range rul.Source.Subjects {
		snapSubjects[k] = v
	}
	snapTarget := map[string]string{}
	for k, v := range rul.Source.Target {
		snapTarget[k] = v
	}
	snapSource := rul.Source.Source.Value

	sid := verifrt.Str("sid", 1, 3, `[0-9]`)
	open := &aucoalesce.Event{Session: sid, Type: auparse.AUDIT_LOGIN, Result: "success", Timestamp: verifrt.Unix(1)}
	open.Process.PID = "77"
	loginFirst := verifrt.Bool("login-first")
	if loginFirst {
		verifrt.Assert("c14.login-noerr", tr.RemoteLogin(rul) == nil)
		verifrt.Assert("c14.open-noerr", tr.AuditdEvent(open) == nil)
	} else {
		verifrt.Assert("c14.open-noerr", tr.AuditdEvent(open) == nil)
		verifrt.Assert("c14.login-noerr", tr.RemoteLogin(rul) == nil)
	}
	base := len(enc.events)
	verifrt.Assert("c14.open-emitted", base == 1)

	mk := func(i int) *aucoalesce.Event {
		ev := &aucoalesce.Event{Session: sid, Type: auparse.AuditMessageType(verifrt.Int("type", 1100, 1400)),
			Result: verifrt.Str("result", 0, R, ""), Timestamp: verifrt.Unix(verifrt.Int("ts", 0, 100000))}
		verifrt.Assume(ev.Type != auparse.AUDIT_CRED_DISP)
		ev.Summary.Action = verifrt.Str("action", 0, 6, "")
		ev.Summary.How = verifrt.Str("how", 0, 6, "")
		ev.Summary.Object.Type = verifrt.Str("otype", 0, 4, "")
		ev.Summary.Object.Primary = verifrt.Str("oprimary", 0, 4, "")
		ev.Summary.Object.Secondary = verifrt.Str("osecondary", 0, 4, "")
		nargs := verifrt.Int("nargs", 0, 2)
		for a := 0; a < nargs; a++ {
			ev.Process.Args = append(ev.Process.Args, verifrt.Str("arg", 0, 4, ""))
		}
		return ev
	}
	evs := []*aucoalesce.Event{mk(0), mk(1)}
	for i, ev := range evs {
		verifrt.Assert("c14.event-noerr", tr.AuditdEvent(ev) == nil)
		verifrt.Assert("c14.one-per-event", len(enc.events) == base+i+1)
		if len(enc.events) != base+i+1 {
			return
		}
		e := enc.events[base+i]
		verifrt.Reach("c14.rendered")
		verifrt.Assert("c14.type", e.Type == common.ActionUserAction)
		verifrt.Assert("c14.component", e.Component == "auditd")
		verifrt.Assert("c14.timestamp", verifrt.And(verifrt.TimeLE(e.LoggedAt, ev.Timestamp), verifrt.TimeLE(ev.Timestamp, e.LoggedAt)))
		verifrt.Assert("c14.audit-id", e.Metadata.AuditID == sid)
		verifrt.Assert("c14.outcome", verifrt.Iff(e.Outcome == auditevent.OutcomeSucceeded, ev.Result == "success"))
		verifrt.Assert("c14.outcome-domain", verifrt.Or(e.Outcome == auditevent.OutcomeSucceeded, e.Outcome == auditevent.OutcomeFailed))
		act, _ := e.Metadata.Extra["action"].(string)
		how, _ := e.Metadata.Extra["how"].(string)
		verifrt.Assert("c14.action", act == ev.Summary.Action)
		verifrt.Assert("c14.how", how == ev.Summary.How)
		obj, isObj := e.Metadata.Extra["object"].(aucoalesce.Object)
		verifrt.Assert("c14.object-type", isObj)
		verifrt.Assert("c14.object", obj == ev.Summary.Object)
		args, has := e.Metadata.Extra["process_args"].([]string)
		verifrt.Assert("c14.args-present-iff-any", has == (len(ev.Process.Args) > 0))
		if has {
			verifrt.Assert("c14.args-len", len(args) == len(ev.Process.Args))
			for a := 0; a < len(args) && a < len(ev.Process.Args); a++ {
				verifrt.Assert("c14.args-equal", args[a] == ev.Process.Args[a])
			}
		}
		// identity content = the login's, and the stored login is untouched
		verifrt.Assert("c14.subjects-len", len(e.Subjects) == len(snapSubjects))
		for k, v := range snapSubjects {
			verifrt.Assert("c14.subjects-equal", e.Subjects[k] == v)
		}
		verifrt.Assert("c14.source", e.Source.Value == snapSource)
		verifrt.Assert("c14.target", e.Target["host"] == snapTarget["host"])
		// mutate the emitted copy: must not reach the stored login
		e.Subjects["tamper"] = "x"
		verifrt.Assert("c14.stored-subjects-len", len(rul.Source.Subjects) == len(snapSubjects))
		for k, v := range snapSubjects {
			verifrt.Assert("c14.stored-subjects-equal", rul.Source.Subjects[k] == v)
		}
		verifrt.Assert("c14.stored-target-len", len(rul.Source.Target) == len(snapTarget))
		verifrt.Assert("c14.stored-source", rul.Source.Source.Value == snapSource)
	}
}
