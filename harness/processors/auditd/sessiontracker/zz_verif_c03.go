//go:build verif

package sessiontracker

import (
	"github.com/elastic/go-libaudit/v2/aucoalesce"
	"github.com/elastic/go-libaudit/v2/auparse"
	"github.com/metal-toolbox/auditevent"

	"github.com/metal-toolbox/audito-maldito/internal/verifrt"
)

// C03: logins, audit events and cleanup delivered from different goroutines. The observation of
// the concurrent run (emissions in order with identities, return values, and a probe of the
// residual state through the API) must equal the observation of some sequential order of the
// same deliveries, which the harness computes on fresh trackers.

type verifOp struct {
	thread int
	run    func(tr *sessionTracker) error
}

type verifObs struct {
	emitted []string // "<sid>|<action>|<user>"
	errs    []bool
}

func verifObserve(enc *verifEnc) []string {
	var out []string
	for _, e := range enc.events {
		act, _ := e.Metadata.Extra["action"].(string)
		out = append(out, e.Metadata.AuditID+"|"+act+"|"+e.Subjects["loggedAs"])
	}
	return out
}

func verifSameObs(a, b []string) bool {
	if len(a) != len(b) {
		return false
	}
	ok := true
	for i := range a {
		ok = verifrt.And(ok, a[i] == b[i])
	}
	return ok
}

// interleavings of the ops preserving per-thread order
func verifOrders(ops []verifOp, nthreads int) [][]int {
	var res [][]int
	next := make([]int, nthreads)
	per := make([][]int, nthreads)
	for i, o := range ops {
		per[o.thread] = append(per[o.thread], i)
	}
	var rec func(cur []int)
	rec = func(cur []int) {
		if len(cur) == len(ops) {
			res = append(res, append([]int{}, cur...))
			return
		}
		for t := 0; t < nthreads; t++ {
			if next[t] < len(per[t]) {
				i := per[t][next[t]]
				next[t]++
				rec(append(cur, i))
				next[t]--
			}
		}
	}
	rec(nil)
	return res
}

func VerifC03Concurrent() {
	prog := verifrt.Param("PROG", 1) // 1: login || LOGIN+event; 2: + events of another session; 3: + cleanup; 4: all; 5: login, login clean-up || events of another session
	ps := verifrt.Str("login-pid", 2, 2, `[0-9]`)
	verifrt.Assume(ps[0] != '0')
	pid := int(ps[0]-'0')*10 + int(ps[1]-'0')
	qs := verifrt.Str("record-pid", 2, 2, `[0-9]`)
	verifrt.Assume(qs[0] != '0')
	// session ids are concrete here (observations stay concrete and cheap to compare); the PIDs,
	// which decide whether login and session match, are symbolic
	sid, sid2 := "7", "12"
	other := verifrt.Str("other-pid", 2, 2, `[0-9]`)
	verifrt.Assume(other[0] != '0')
	verifrt.Assume(other != ps)
	verifrt.Assume(other != qs)

	mkEvent := func(s string, typ auparse.AuditMessageType, p, tag string) *aucoalesce.Event {
		ev := &aucoalesce.Event{Session: s, Type: typ, Result: "success", Timestamp: verifrt.Unix(1)}
		ev.Process.PID = p
		ev.Summary.Action = tag
		return ev
	}
	var ops []verifOp
	ops = append(ops, verifOp{0, func(tr *sessionTracker) error { return tr.RemoteLogin(verifMakeLogin(0, pid, 500)) }})
	if prog == 5 {
		// program 5: one deliverer parks a login and then runs the login clean-up with a cut-off far
		// in the future, while another delivers the records of an unrelated session. In every
		// sequential order the parked login is gone afterwards (the probe's LOGIN record of that PID
		// is held, not emitted).
		ops = append(ops, verifOp{0, func(tr *sessionTracker) error {
			tr.DeleteRemoteUserLoginsBefore(verifrt.Unix(1000000))
			return nil
		}})
		ops = append(ops, verifOp{1, func(tr *sessionTracker) error { return tr.AuditdEvent(mkEvent(sid2, auparse.AUDIT_LOGIN, other, "open2")) }})
		ops = append(ops, verifOp{1, func(tr *sessionTracker) error { return tr.AuditdEvent(mkEvent(sid2, auparse.AUDIT_USER_END, other, "act2")) }})
	} else {
		ops = append(ops, verifOp{1, func(tr *sessionTracker) error { return tr.AuditdEvent(mkEvent(sid, auparse.AUDIT_LOGIN, qs, "open")) }})
		ops = append(ops, verifOp{1, func(tr *sessionTracker) error { return tr.AuditdEvent(mkEvent(sid, auparse.AUDIT_USER_END, qs, "act")) }})
	}
	nthreads := 2
	var independent []verifOp // deliveries of an unrelated session: they commute with all others
	if prog == 2 || prog == 4 {
		independent = append(independent, verifOp{-1, func(tr *sessionTracker) error { return tr.AuditdEvent(mkEvent(sid2, auparse.AUDIT_LOGIN, other, "open2")) }})
		independent = append(independent, verifOp{-1, func(tr *sessionTracker) error { return tr.AuditdEvent(mkEvent(sid2, auparse.AUDIT_USER_END, other, "act2")) }})
	}
	if prog == 3 || prog == 4 {
		t := nthreads
		nthreads++
		// the cut-off is far in the past (nothing is old) or far in the future (everything uncorrelated
		// is old), so the outcome does not depend on the exact clock readings of a run
		cut := -1000000
		if verifrt.Bool("cleanup-drops") {
			cut = 1000000
		}
		ops = append(ops, verifOp{t, func(tr *sessionTracker) error {
			tr.DeleteUsersWithoutLoginsBefore(verifrt.Unix(cut))
			return nil
		}})
		ops = append(ops, verifOp{t, func(tr *sessionTracker) error {
			tr.DeleteRemoteUserLoginsBefore(verifrt.Unix(cut))
			return nil
		}})
	}
	probe := func(tr *sessionTracker, enc *verifEnc) []string {
		// residual state through the API: a follow-up event of the session, then the login's twin
		if prog == 5 {
			_ = tr.AuditdEvent(mkEvent(sid, auparse.AUDIT_LOGIN, ps, "probe-open"))
			return verifObserve(enc)
		}
		_ = tr.AuditdEvent(mkEvent(sid, auparse.AUDIT_USER_END, qs, "probe"))
		return verifObserve(enc)
	}

	// ---- concurrent run
	enc := &verifEnc{}
	tr := NewSessionTracker(auditevent.NewAuditEventWriter(enc), nil)
	done := make(chan struct{}, nthreads+1)
	errs := make([]bool, len(ops))
	extra := 0
	if len(independent) > 0 {
		extra = 1
		go func() {
			for _, o := range independent {
				_ = o.run(tr)
			}
			done <- struct{}{}
		}()
	}
	for t := 0; t < nthreads; t++ {
		t := t
		go func() {
			for i, o := range ops {
				if o.thread == t {
					errs[i] = o.run(tr) != nil
				}
			}
			done <- struct{}{}
		}()
	}
	for t := 0; t < nthreads+extra; t++ {
		<-done // a delivery that never returns shows up as a deadlock
	}
	verifrt.Reach("c03.all-returned")
	conc := probe(tr, enc)
	for i := range errs {
		verifrt.Assert("c03.no-error", !errs[i])
	}

	// ---- sequential references
	match := false
	for _, order := range verifOrders(ops, nthreads) {
		e2 := &verifEnc{}
		t2 := NewSessionTracker(auditevent.NewAuditEventWriter(e2), nil)
		for _, i := range order {
			_ = ops[i].run(t2)
		}
		// the unrelated session's deliveries touch other keys and emit nothing: one placement suffices
		for _, o := range independent {
			_ = o.run(t2)
		}
		match = verifrt.Or(match, verifSameObs(conc, probe(t2, e2)))
		if match {
			break // observations are concrete here: the first matching order settles it
		}
	}
	verifrt.Assert("c03.equals-some-sequential-order", match)
	// the special case named by the property
	if ps == qs && prog <= 2 {
		verifrt.Reach("c03.matching-pid")
		verifrt.Assert("c03.not-both-left-waiting", len(conc) >= 3)
	}
}
