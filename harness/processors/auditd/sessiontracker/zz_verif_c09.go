//go:build verif

package sessiontracker

import (
	"github.com/elastic/go-libaudit/v2/aucoalesce"
	"github.com/elastic/go-libaudit/v2/auparse"
	"github.com/metal-toolbox/auditevent"

	"github.com/metal-toolbox/audito-maldito/internal/verifrt"
)

// C09: PID reuse. Session A and later session B are opened by sshd processes with the same PID.
// B's records and login only start after A has ended. Map iteration order is a decision
// (two sessions can carry the same source PID).

type verifGen struct {
	sid      string
	k        int // login index (identity tags)
	opened   bool
	loginIn  bool
	correl   bool
	ended    bool
	held     []string
	heldEnd  bool
	heldPost int // records held after the held disposal record (their emission is unspecified)
	nextRec  int // 0 LOGIN, 1 event, 2 CRED_DISP, 3 done
}

func VerifC09Reuse() {
	K := verifrt.Param("K", 7)
	enc := &verifEnc{}
	tr := NewSessionTracker(auditevent.NewAuditEventWriter(enc), nil)
	ps := verifrt.Str("pid", 2, 2, `[0-9]`)
	verifrt.Assume(ps[0] != '0')
	pid := int(ps[0]-'0')*10 + int(ps[1]-'0')
	a := &verifGen{sid: verifrt.Str("sidA", 1, 2, `[0-9]`), k: 0}
	b := &verifGen{sid: verifrt.Str("sidB", 1, 2, `[0-9]`), k: 1}
	verifrt.Assume(a.sid != b.sid)
	seen := 0

	event := func(g *verifGen, typ auparse.AuditMessageType, tag string) ([]string, bool) {
		ev := &aucoalesce.Event{Session: g.sid, Type: typ, Result: "success", Timestamp: verifrt.Unix(1)}
		if typ == auparse.AUDIT_CRED_DISP && verifrt.Bool("disposal-reports-failure") {
			ev.Result = "fail" // res=failed: the session is over all the same
		}
		ev.Process.PID = ps
		ev.Summary.Action = tag
		var expect []string
		loose := false
		switch {
		case g.ended:
			loose = true
		case !g.opened:
			g.opened = true
			if g.loginIn {
				g.correl = true
				expect = []string{tag}
			} else {
				g.held = append(g.held, tag)
			}
		case g.correl:
			expect = []string{tag}
			if typ == auparse.AUDIT_CRED_DISP {
				g.ended = true
			}
		default:
			if g.heldEnd {
				g.heldPost++ // after the disposal record, while the login is still unknown
			} else {
				g.held = append(g.held, tag)
				if typ == auparse.AUDIT_CRED_DISP {
					g.heldEnd = true
				}
			}
		}
		verifrt.Assert("c09.event-noerr", tr.AuditdEvent(ev) == nil)
		return expect, loose
	}
	extraAllowed := 0
	login := func(g *verifGen) []string {
		g.loginIn = true
		var expect []string
		extraAllowed = g.heldPost
		g.heldPost = 0
		if g.opened && !g.correl {
			g.correl = true
			expect = g.held
			g.held = nil
			if g.heldEnd {
				g.ended = true
			}
		}
		verifrt.Assert("c09.login-noerr", tr.RemoteLogin(verifMakeLogin(g.k, pid, 5)) == nil)
		return expect
	}

	for step := 0; step < K; step++ {
		var expect []string
		var g *verifGen
		loose := false
		tag := verifTag("act", step)
		switch verifrt.Choose("op", 6) {
		case 0: // A's next record
			g = a
			switch a.nextRec {
			case 0:
				expect, loose = event(a, auparse.AUDIT_LOGIN, tag)
			case 1:
				expect, loose = event(a, auparse.AUDIT_USER_END, tag)
			case 2:
				expect, loose = event(a, auparse.AUDIT_CRED_DISP, tag)
			default:
				return
			}
			a.nextRec++
		case 1: // A's login line
			if a.loginIn {
				return
			}
			g = a
			expect = login(a)
		case 2: // B's next record: only once A has ended
			if !a.ended {
				return
			}
			g = b
			switch b.nextRec {
			case 0:
				expect, loose = event(b, auparse.AUDIT_LOGIN, tag)
			case 1:
				expect, loose = event(b, auparse.AUDIT_USER_END, tag)
			case 2:
				expect, loose = event(b, auparse.AUDIT_CRED_DISP, tag)
			default:
				return
			}
			b.nextRec++
		case 3: // B's login line: the new sshd only exists after A's process ended
			if !a.ended || b.loginIn {
				return
			}
			g = b
			verifrt.Reach("c09.second-login")
			expect = login(b)
		case 4: // a late record of session A after its disposal record (ended, or still held)
			if !a.ended && !(a.heldEnd && !a.correl) {
				return
			}
			if !a.ended {
				verifrt.Reach("c09.record-held-after-disposal")
			}
			g = a
			expect, loose = event(a, auparse.AUDIT_USER_END, tag)
		default:
			return
		}
		got := enc.events[seen:]
		seen = len(enc.events)
		if loose {
			verifrt.Assert("c09.straggler.at-most-one", len(got) <= 1)
			for _, e := range got {
				verifrt.Reach("c09.straggler-emitted")
				verifrt.Assert("c09.straggler.session", e.Metadata.AuditID == g.sid)
				verifIdentityIs("c09.straggler.identity", e, g.k)
				verifIdentityIs("c04.after-end.identity", e, g.k) // the same clause is part of C04's statement
			}
			continue
		}
		// records held after the disposal record may or may not be released with the flush
		verifrt.Assert("c09.count", len(got) >= len(expect) && len(got) <= len(expect)+extraAllowed)
		if len(got) < len(expect) || len(got) > len(expect)+extraAllowed {
			return
		}
		for i := len(expect); i < len(got); i++ {
			verifrt.Assert("c09.straggler.session", got[i].Metadata.AuditID == g.sid)
			verifIdentityIs("c09.straggler.identity", got[i], g.k)
			verifIdentityIs("c04.after-end.identity", got[i], g.k)
		}
		extraAllowed = 0
		got = got[:len(expect)]
		for i, e := range got {
			if g == b {
				verifrt.Reach("c09.second-generation-emitted")
			}
			verifrt.Assert("c09.session", e.Metadata.AuditID == g.sid)
			verifIdentityIs("c09.identity", e, g.k)
			act, _ := e.Metadata.Extra["action"].(string)
			verifrt.Assert("c09.order", act == expect[i])
		}
	}
}
