//go:build verif

package sessiontracker

import (
	"errors"
	"strconv"
	"time"

	"github.com/elastic/go-libaudit/v2/aucoalesce"
	"github.com/elastic/go-libaudit/v2/auparse"
	"github.com/metal-toolbox/auditevent"

	"github.com/metal-toolbox/audito-maldito/internal/common"
	"github.com/metal-toolbox/audito-maldito/internal/verifrt"
)

// History harness for the correlator (C01, C02, C04, C09, C16). Operations are drawn one at a
// time; PIDs, session ids, record types and times are symbolic; a ghost model written here (it
// shares no code with the tracker) predicts, after every step, exactly what must have been
// emitted.

type verifEnc struct {
	events []*auditevent.AuditEvent
	failAt int // fail the k-th Encode call (1-based); 0 = never
	calls  int
}

var errVerifWrite = errors.New("verif: injected write failure")

func (e *verifEnc) Encode(v any) error {
	e.calls++
	if e.failAt != 0 && e.calls == e.failAt {
		return errVerifWrite
	}
	e.events = append(e.events, v.(*auditevent.AuditEvent))
	return nil
}

type verifLoginG struct {
	pid     int
	pidStr  string
	arrived bool
	dropped bool // discarded by cleanup while parked
	bound   int  // session index it was bound to, -1
	loggedT int
	rul     common.RemoteUserLogin
}

type verifSessG struct {
	sid       string
	opened    bool
	login     int // index of the login whose pid equals the LOGIN record's pid, -1 = foreign
	pidStr    string
	correl    bool
	ended     bool
	dropped   bool // discarded by cleanup while uncorrelated
	held      []string
	heldEnd   bool
	heldPost  int // records held after the held disposal record: their emission is unspecified
	addedLo   time.Time
	addedHi   time.Time
	everEmit  bool
	gen       int
}

func verifTag(kind string, k int) string { return kind + strconv.Itoa(k) }

func verifMakeLogin(k int, pid int, sec int) common.RemoteUserLogin {
	evt := auditevent.NewAuditEvent(common.ActionLoginIdentifier,
		auditevent.EventSource{Type: "IP", Value: verifTag("addr", k), Extra: map[string]any{"port": verifTag("port", k)}},
		auditevent.OutcomeSucceeded,
		map[string]string{"loggedAs": verifTag("user", k), "userID": verifTag("cred", k)},
		"sshd").WithTarget(map[string]string{"host": verifTag("host", k)})
	evt.LoggedAt = verifrt.Unix(sec)
	return common.RemoteUserLogin{Source: evt, PID: pid, CredUserID: verifTag("cred", k)}
}

// verifIdentityIs: the UserAction e carries exactly login k's identity.
func verifIdentityIs(site string, e *auditevent.AuditEvent, k int) {
	verifrt.Assert(site+".subject-user", e.Subjects["loggedAs"] == verifTag("user", k))
	verifrt.Assert(site+".subject-cred", e.Subjects["userID"] == verifTag("cred", k))
	verifrt.Assert(site+".subjects-size", len(e.Subjects) == 2)
	verifrt.Assert(site+".source", e.Source.Value == verifTag("addr", k))
	verifrt.Assert(site+".target", e.Target["host"] == verifTag("host", k))
}

func VerifTrackerHistory() {
	K := verifrt.Param("K", 4)   // history length
	S := verifrt.Param("S", 2)   // sessions
	L := verifrt.Param("L", 2)   // logins
	reuse := verifrt.Param("REUSE", 0) == 1
	cleanup := verifrt.Param("CLEANUP", 0) == 1
	wild := verifrt.Param("WILD", 0) == 1 // C04: invalid session fields, non-LOGIN openers, foreign pids
	pfx := "trk"

	enc := &verifEnc{}
	tr := NewSessionTracker(auditevent.NewAuditEventWriter(enc), nil)

	// symbolic two-digit PIDs
	logins := make([]*verifLoginG, L)
	for k := 0; k < L; k++ {
		ps := verifrt.Str("pid", 2, 2, `[0-9]`)
		verifrt.Assume(ps[0] != '0')
		logins[k] = &verifLoginG{pidStr: ps, pid: int(ps[0]-'0')*10 + int(ps[1]-'0'), bound: -1}
	}
	if !reuse {
		for a := 0; a < L; a++ {
			for b := a + 1; b < L; b++ {
				verifrt.Assume(logins[a].pid != logins[b].pid)
			}
		}
	} else if L == 2 {
		verifrt.Assume(logins[0].pid == logins[1].pid) // C09: the second sshd reuses the first one's PID
	}
	foreign := verifrt.Str("foreignpid", 2, 2, `[0-9]`)
	verifrt.Assume(foreign[0] != '0')
	for k := 0; k < L; k++ {
		verifrt.Assume(foreign != logins[k].pidStr)
	}
	sess := make([]*verifSessG, S)
	for j := 0; j < S; j++ {
		sid := verifrt.Str("sid", 1, 2, `[0-9]`)
		sess[j] = &verifSessG{sid: sid, login: -1}
		for i := 0; i < j; i++ {
			verifrt.Assume(sess[i].sid != sid)
		}
	}

	nextLogin := 0
	seen := 0 // events already checked
	for step := 0; step < K; step++ {
		nops := 2
		if cleanup {
			nops = 4
		}
		if cleanup {
			// time passes between deliveries (bounded, so that a counterexample can be replayed in real time)
			verifrt.Advance(verifrt.Int("dt", 0, verifrt.Param("DT", 2)))
		}
		op := verifrt.Choose("op", nops)
		var expect []string // expected new emissions: tags, in order
		extraAllowed := 0    // optional further emissions (records held after a held disposal record)
		expectSess, expectLogin := -1, -1
		loose := false // events after the end of a session: 0 or 1 emission allowed
		switch op {
		case 0: // the next SSH login arrives
			if nextLogin >= L {
				return
			}
			k := nextLogin
			nextLogin++
			lg := logins[k]
			if false && reuse && k == 1 {
				// PID reuse: the earlier session with this PID has ended (C09's precondition)
				ok := false
				for _, s := range sess {
					if s.login == 0 && s.ended {
						ok = true
					}
				}
				if !ok {
					return
				}
			}
			lg.loggedT = verifrt.Int("login-time", 0, 1000)
			lg.rul = verifMakeLogin(k, lg.pid, lg.loggedT)
			lg.arrived = true
			// ghost: bind to the open, not yet correlated, not ended session opened by this pid
			for j, s := range sess {
				if s.opened && !s.dropped && !s.ended && !s.correl && s.login == k {
					s.correl = true
					lg.bound = j
					expect, expectSess, expectLogin = s.held, j, k
					extraAllowed = s.heldPost
					s.held, s.heldPost = nil, 0
					if s.heldEnd {
						s.ended = true
					}
				}
			}
			err := tr.RemoteLogin(lg.rul)
			verifrt.Assert(pfx+".login-noerr", err == nil)
		case 1: // an audit event arrives
			j := verifrt.Choose("sess", S)
			s := sess[j]
			typ := verifrt.Int("type", 1000, 1200)
			tag := verifTag("act", step)
			sid := s.sid
			if wild {
				switch verifrt.Choose("sidkind", 3) {
				case 1:
					sid = ""
				case 2:
					sid = "unset"
				}
			}
			pidStr := s.pidStr
			isLogin := typ == int(auparse.AUDIT_LOGIN)
			isEnd := typ == int(auparse.AUDIT_CRED_DISP)
			if isLogin && !s.opened && sid == s.sid {
				// which sshd opened this session?
				which := verifrt.Choose("opener", L+1)
				if reuse && which < L {
					// a pid's next session opens only after its previous one ended
					for _, o := range sess {
						if o != s && o.opened && o.login >= 0 && logins[o.login].pid == logins[which].pid && !o.ended {
							return
						}
					}
					// the session belongs to the first login of that pid that has not been used by an ended session
					if which == 0 {
						for _, o := range sess {
							if o != s && o.login == 0 {
								which = 1
							}
						}
						if which >= L {
							return
						}
					} else {
						opened0 := false
						for _, o := range sess {
							if o.login == 0 && o.ended {
								opened0 = true
							}
						}
						if !opened0 {
							return
						}
					}
				} else if which < L {
					for _, o := range sess {
						if o != s && o.login == which {
							return // one session per sshd pid (no reuse)
						}
					}
				}
				if which < L {
					pidStr = logins[which].pidStr
				} else {
					if !wild {
						return
					}
					pidStr = foreign
				}
				s.pidStr = pidStr
				s.login = -1
				if which < L {
					s.login = which
				}
			}
			if wild && pidStr == "" {
				// records of a session whose LOGIN record was not seen still name a process: that of a
				// login (cron/su started from an SSH shell share nothing, but PIDs do collide) or a foreign one
				if w := verifrt.Choose("stray-pid", L+1); w < L {
					pidStr = logins[w].pidStr
				} else {
					pidStr = foreign
				}
			}
			ev := &aucoalesce.Event{Session: sid, Type: auparse.AuditMessageType(typ), Result: "success", Timestamp: verifrt.Unix(step)}
			ev.Process.PID = pidStr
			ev.Summary.Action = tag
			if isLogin {
				// the record's other fields: the session the process was in before (any id, in
				// particular that of another session of the history, or 4294967295 for none)
				ev.Data = map[string]string{"old-ses": verifrt.Str("old-ses", 1, 2, `[0-9]`), "old-auid": "4294967295", "auid": "1000"}
				// a LOGIN record coalesced with its SYSCALL record names the parent process as well
				ev.Process.PPID = verifrt.Str("ppid", 0, 2, `[0-9]`)
			}
			// ghost
			valid := sid == s.sid
			switch {
			case !valid:
			case !s.opened || s.dropped:
				if isLogin {
					if s.dropped && !wild {
						return // a session id is not reused within a history
					}
					if s.dropped {
						return
					}
					s.opened = true
					k := s.login
					if k >= 0 && logins[k].arrived && !logins[k].dropped && logins[k].bound < 0 {
						s.correl = true
						logins[k].bound = j
						expect, expectSess, expectLogin = []string{tag}, j, k
					} else {
						s.held = append(s.held, tag)
					}
				} else if !wild {
					return // well-formed histories: LOGIN is a session's first record
				}
			case s.ended:
				loose = true
				expectSess, expectLogin = j, s.login
			case s.correl:
				expect, expectSess, expectLogin = []string{tag}, j, s.login
				if isEnd {
					s.ended = true
				}
			default:
				if s.heldEnd {
					s.heldPost++
				} else {
					s.held = append(s.held, tag)
					if isEnd {
						s.heldEnd = true
					}
				}
			}
			t0 := time.Now()
			err := tr.AuditdEvent(ev)
			t1 := time.Now()
			if valid && isLogin && s.opened && s.addedHi.IsZero() {
				s.addedLo, s.addedHi = t0, t1
			}
			verifrt.Assert(pfx+".event-noerr", err == nil)
			verifrt.Assert("c04.event-noerr", err == nil)
		case 2: // cleanup of uncorrelated sessions
			cut := verifrt.Int("cut", 0, 1000)
			ct := verifrt.Unix(cut)
			for _, s := range sess {
				if s.opened && !s.dropped && !s.correl {
					// the session's age is bracketed by two clock readings
					if verifrt.TimeLE(ct, s.addedLo) {
						continue // younger than (or exactly at) the cut-off: must survive
					}
					if verifrt.TimeLE(s.addedHi, ct) && !verifrt.TimeLE(ct, s.addedHi) {
						verifrt.Reach("c16.session-discarded")
						s.dropped = true // strictly older: must be discarded
						s.held = nil
						continue
					}
					return // the cut-off falls inside the bracket: unspecified
				}
			}
			tr.DeleteUsersWithoutLoginsBefore(ct)
		case 3: // cleanup of parked logins
			cut := verifrt.Int("cut", 0, 1000)
			for _, lg := range logins {
				if lg.arrived && !lg.dropped && lg.bound < 0 {
					if lg.loggedT < cut {
						verifrt.Reach("c16.login-discarded")
						lg.dropped = true
					}
				}
			}
			tr.DeleteRemoteUserLoginsBefore(verifrt.Unix(cut))
		}

		// ---- check what this step emitted
		got := enc.events[seen:]
		seen = len(enc.events)
		if loose {
			verifrt.Assert("c04.after-end.at-most-one", len(got) <= 1)
			for _, e := range got {
				verifrt.Reach("trk.emitted-after-end")
				verifrt.Assert("c04.after-end.session", e.Metadata.AuditID == sess[expectSess].sid)
				verifIdentityIs("c04.after-end.identity", e, expectLogin)
				verifIdentityIs("c09.straggler.identity", e, expectLogin)
			}
			continue
		}
		if extraAllowed > 0 && len(got) > len(expect) && len(got) <= len(expect)+extraAllowed {
			for _, e := range got[len(expect):] {
				verifrt.Assert("c04.after-end.session", e.Metadata.AuditID == sess[expectSess].sid)
				verifIdentityIs("c04.after-end.identity", e, expectLogin)
				verifIdentityIs("c01.identity", e, expectLogin)
			}
			got = got[:len(expect)]
		}
		if cleanup {
			// C16: what is released depends on the window rule only - held events of a discarded
			// session never come out late, survivors are still correlated
			verifrt.Assert("c16.emissions-follow-window-rule", len(got) == len(expect))
			if len(expect) > 0 {
				verifrt.Reach("c16.correlated-despite-cleanup")
			}
		}
		// C01: whatever this step emitted - expected in number or not - carries the identity of the
		// login whose PID opened that session; with no such login available nothing may be emitted
		for _, e := range got {
			verifrt.Assert("c01.emitted-only-with-its-own-login", expectLogin >= 0)
			if expectLogin >= 0 {
				verifIdentityIs("c01.identity", e, expectLogin)
			}
		}
		verifrt.Assert("c02.count", len(got) == len(expect))
		verifrt.Assert("c04.nothing-uncorrelated", verifrt.Or(len(expect) > 0, len(got) == 0))
		if len(got) != len(expect) {
			return
		}
		if len(expect) > 1 {
			verifrt.Reach("trk.flush-many")
		}
		for i, e := range got {
			verifrt.Reach("trk.emitted")
			verifrt.Assert("c01.type", e.Type == common.ActionUserAction)
			verifrt.Assert("c01.session", e.Metadata.AuditID == sess[expectSess].sid)
			verifIdentityIs("c01.identity", e, expectLogin)
			if cleanup {
				verifIdentityIs("c16.identity", e, expectLogin)
			}
			if reuse && expectLogin == 1 {
				verifrt.Reach("trk.second-generation-emitted")
				verifIdentityIs("c09.new-identity", e, expectLogin)
			}
			act, _ := e.Metadata.Extra["action"].(string)
			verifrt.Assert("c02.order", act == expect[i])
		}
	}
	// end of history: C02 completeness for correlated sessions is implied by the per-step
	// equalities; C16: nothing held by a discarded session was ever released.
	verifrt.Reach("trk.history-end")
}
