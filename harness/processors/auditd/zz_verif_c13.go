//go:build verif

package auditd

import (
	"context"
	"errors"

	"github.com/metal-toolbox/auditevent"
	"go.uber.org/zap"

	"github.com/metal-toolbox/audito-maldito/internal/common"
	"github.com/metal-toolbox/audito-maldito/internal/health"
	"github.com/metal-toolbox/audito-maldito/internal/verifrt"
)

type verifEnc struct{ events []*auditevent.AuditEvent }

func (e *verifEnc) Encode(v any) error { e.events = append(e.events, v.(*auditevent.AuditEvent)); return nil }

// C13 (audit processor): idle in its select with both inputs silent.
func VerifC13AuditdIdle() {
	SetLogger(zap.NewNop().Sugar())
	enc := &verifEnc{}
	a := &Auditd{Audits: make(chan string, 1), Logins: make(chan common.RemoteUserLogin), EventW: auditevent.NewAuditEventWriter(enc), Health: health.NewHealth()}
	ctx, cancel := context.WithCancel(context.Background())
	done := make(chan struct{})
	var err error
	go func() {
		err = a.Read(ctx)
		close(done)
	}()
	verifrt.Quiesce()
	verifrt.Reach("c13.auditd.idle")
	cancel()
	<-done
	verifrt.Reach("c13.auditd.returned")
	verifrt.Assert("c13.auditd.ctx-error", errors.Is(err, context.Canceled))
	verifrt.Assert("c13.auditd.nothing-emitted", len(enc.events) == 0)
}
