//go:build verif

package auditd

import (
	"context"
	"time"

	"github.com/elastic/go-libaudit/v2"
	"github.com/elastic/go-libaudit/v2/auparse"

	"github.com/metal-toolbox/audito-maldito/internal/verifrt"
)

// C07 (audit half): an audit record line parses to the same message with or without the trailing
// newline that the pipe ingester leaves on it. Both variants go through the repo's parseAuditLogs
// into go-libaudit's real parser and reassembler; a capturing libaudit.Stream is the observer.

type verifStream struct{ groups [][]*auparse.AuditMessage }

func (s *verifStream) ReassemblyComplete(msgs []*auparse.AuditMessage) { s.groups = append(s.groups, msgs) }
func (s *verifStream) EventsLost(int)                                   {}

func verifParseThrough(line string) (*verifStream, error) {
	st := &verifStream{}
	reass, err := libaudit.NewReassembler(5, 2*time.Second, st)
	if err != nil {
		panic(err)
	}
	defer reass.Close()
	lines := make(chan string, 2)
	lines <- line
	ctx, cancel := context.WithCancel(context.Background())
	done := make(chan error, 1)
	go func() { done <- parseAuditLogs(ctx, lines, reass) }()
	verifrt.Quiesce()
	cancel()
	perr := <-done
	return st, perr
}

func VerifC07AuditLine() {
	T := verifrt.Param("T", 5)
	typ := []string{"LOGIN", "CRED_DISP", "USER_END"}[verifrt.Choose("type", 3)]
	// field lengths are fixed (contents symbolic): the question is the trailing newline, not the
	// header grammar of go-libaudit
	t := verifrt.Template("type="+typ+" msg=audit(", verifrt.F("sec", 2, 2, `[0-9]`), ".", verifrt.F("ms", 3, 3, `[0-9]`), ":",
		verifrt.F("seq", 2, 2, `[0-9]`), "): ", verifrt.F("tail", T, T, `[a-z0-9=]`))
	a, errA := verifParseThrough(t.Line)
	b, errB := verifParseThrough(t.Line + "\n")
	verifrt.Reach("c07.audit.parsed")
	verifrt.Assert("c07.audit.parsed-without-newline", len(a.groups) == 1)
	verifrt.Assert("c07.audit.parsed-with-newline", len(b.groups) == 1)
	_, _ = errA, errB
	if len(a.groups) != 1 || len(b.groups) != 1 {
		return
	}
	verifrt.Assert("c07.audit.one-message", len(a.groups[0]) == 1 && len(b.groups[0]) == 1)
	ma, mb := a.groups[0][0], b.groups[0][0]
	verifrt.Assert("c07.audit.type", ma.RecordType == mb.RecordType)
	verifrt.Assert("c07.audit.sequence", ma.Sequence == mb.Sequence)
	verifrt.Assert("c07.audit.timestamp", ma.Timestamp.Equal(mb.Timestamp))
	verifrt.AssertEqStr("c07.audit.raw", ma.RawData, mb.RawData)
}

// Empty lines are the only ones skipped.
func VerifC07AuditEmptyLine() {
	st, err := verifParseThrough("")
	verifrt.Reach("c07.audit.empty")
	verifrt.Assert("c07.audit.empty-skipped", len(st.groups) == 0)
	verifrt.Assert("c07.audit.empty-no-error", err == context.Canceled)
}
