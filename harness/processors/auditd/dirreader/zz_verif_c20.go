//go:build verif

package dirreader

import (
	"context"
	"io"
	"io/fs"
	"os"
	"strings"
	"time"

	"github.com/fsnotify/fsnotify"

	"github.com/metal-toolbox/audito-maldito/internal/verifrt"
)

// ---------------- C20 (a): start-up order ----------------

type verifDirEntry struct {
	name string
	dir  bool
}

func (e verifDirEntry) Name() string               { return e.name }
func (e verifDirEntry) IsDir() bool                { return e.dir }
func (e verifDirEntry) Type() fs.FileMode          { return 0 }
func (e verifDirEntry) Info() (fs.FileInfo, error) { return nil, nil }

// verifSuffix returns the rotation number of an audit log name: -1 for the live file.
func verifSuffix(name string) int {
	const p = "audit.log."
	if len(name) <= len(p) {
		return -1
	}
	v := 0
	for i := len(p); i < len(name); i++ {
		v = v*10 + int(name[i]-'0')
	}
	return v
}

func VerifC20Sort() {
	n := verifrt.Param("N", 3)
	D := verifrt.Param("D", 3) // digits of a rotation suffix
	var entries []os.DirEntry
	var want []string
	haveLive := false
	for i := 0; i < n; i++ {
		switch verifrt.Choose("kind", 3) {
		case 0:
			if haveLive {
				return
			}
			haveLive = true
			entries = append(entries, verifDirEntry{name: "audit.log"})
			want = append(want, "audit.log")
		case 1:
			d := verifrt.Str("suffix", 1, D, `[0-9]`)
			verifrt.Assume(d[0] != '0')
			name := "audit.log." + d
			for _, w := range want {
				verifrt.Assume(w != name)
			}
			isDir := verifrt.Bool("isdir")
			entries = append(entries, verifDirEntry{name: name, dir: isDir})
			if !isDir {
				want = append(want, name)
			}
		case 2:
			entries = append(entries, verifDirEntry{name: "lastlog"})
		}
	}
	got := sortLogNamesOldToNew(entries)
	verifrt.Reach("c20.sort.done")
	verifrt.Assert("c20.sort.count", len(got) == len(want))
	if len(got) != len(want) {
		return
	}
	for _, w := range want {
		found := false
		for _, g := range got {
			found = verifrt.Or(found, g == w)
		}
		verifrt.Assert("c20.sort.complete", found)
	}
	for i := 0; i+1 < len(got); i++ {
		verifrt.Reach("c20.sort.pair")
		verifrt.Assert("c20.sort.oldest-first", verifSuffix(got[i]) > verifSuffix(got[i+1]))
	}
}

// ---------------- C20 (b): tailing the live file ----------------

type verifFS struct {
	data []byte // content of audit.log
}

type verifInfo struct{ size int64 }

func (i verifInfo) Name() string       { return "audit.log" }
func (i verifInfo) Size() int64        { return i.size }
func (i verifInfo) Mode() fs.FileMode  { return 0o600 }
func (i verifInfo) ModTime() time.Time { return time.Time{} }
func (i verifInfo) IsDir() bool        { return false }
func (i verifInfo) Sys() any           { return nil }

type verifFile struct {
	fs  *verifFS
	pos int64
}

func (f *verifFile) Stat() (fs.FileInfo, error) { return verifInfo{size: int64(len(f.fs.data))}, nil }
func (f *verifFile) Close() error               { return nil }
func (f *verifFile) Seek(off int64, whence int) (int64, error) {
	if whence != io.SeekStart {
		panic("verif: unexpected whence")
	}
	f.pos = off
	return off, nil
}
func (f *verifFile) Read(p []byte) (int, error) {
	if f.pos >= int64(len(f.fs.data)) {
		return 0, io.EOF
	}
	n := copy(p, f.fs.data[f.pos:])
	f.pos += int64(n)
	return n, nil
}

func (v *verifFS) Open(string) (statReadSeekCloser, error) { return &verifFile{fs: v}, nil }

// verifContent: exactly n symbolic bytes, none of them a newline (lengths are varied by the
// operations themselves: empty lines, fragments, multi-fragment lines).
func verifContent(name string, n int) string {
	return verifrt.Str(name, n, n, `[^\n]`)
}

func VerifC20Tail() {
	K := verifrt.Param("K", 4)
	B := verifrt.Param("B", 2) // bytes per appended fragment
	vfs := &verifFS{}
	lines := make(chan string, 64)
	rf := &rotatingFile{
		openFn: func() (statReadSeekCloser, error) { return vfs.Open("audit.log") },
		lines:  lines,
	}
	ctx := context.Background()

	// files present at start: the live file may already hold complete lines and a partial one
	var expect []string
	partial := ""
	if verifrt.Bool("initial-content") {
		l0 := verifContent("init-line", B)
		partial = verifContent("init-partial", B)
		vfs.data = append(vfs.data, []byte(l0+"\n"+partial)...)
		expect = append(expect, l0)
		n, err := readFilePathLines(ctx, vfs, "audit.log", lines)
		verifrt.Assert("c20.tail.init-noerr", err == nil)
		rf.setOffset(n)
	}
	check := func() {
		var got []string
		for len(lines) > 0 {
			got = append(got, <-lines)
		}
		verifrt.Assert("c20.tail.count", len(got) == len(expect))
		if len(got) == len(expect) {
			for i := range got {
				verifrt.Reach("c20.tail.line")
				verifrt.Assert("c20.tail.line-equal", got[i] == expect[i])
			}
		}
		expect = nil
	}
	check()

	for step := 0; step < K; step++ {
		switch verifrt.Choose("op", 6) {
		case 0: // append one whole line (completing a pending partial line)
			c := verifContent("line", B)
			vfs.data = append(vfs.data, []byte(c+"\n")...)
			expect = append(expect, partial+c)
			partial = ""
			verifrt.Assert("c20.tail.noerr", rf.read(ctx, fsnotify.Write) == nil)
		case 1: // append two whole lines in one write
			c1, c2 := verifContent("line", B), verifContent("line", B)
			vfs.data = append(vfs.data, []byte(c1+"\n"+c2+"\n")...)
			expect = append(expect, partial+c1, c2)
			partial = ""
			verifrt.Assert("c20.tail.noerr", rf.read(ctx, fsnotify.Write) == nil)
		case 2: // append a fragment without newline
			c := verifContent("fragment", B)
			vfs.data = append(vfs.data, []byte(c)...)
			partial += c
			verifrt.Reach("c20.tail.partial")
			verifrt.Assert("c20.tail.noerr", rf.read(ctx, fsnotify.Write) == nil)
		case 3: // rotation: rename + create, the new live file is empty
			vfs.data = nil
			partial = ""
			verifrt.Reach("c20.tail.rotate")
			verifrt.Assert("c20.tail.noerr", rf.read(ctx, fsnotify.Rename) == nil)
			verifrt.Assert("c20.tail.noerr", rf.read(ctx, fsnotify.Create) == nil)
		case 5: // an empty line (or the newline that completes a pending fragment)
			vfs.data = append(vfs.data, '\n')
			expect = append(expect, partial)
			partial = ""
			verifrt.Assert("c20.tail.noerr", rf.read(ctx, fsnotify.Write) == nil)
		case 4: // truncation to a shorter content, signalled by a write event
			if len(vfs.data) < 2 {
				return
			}
			c := verifContent("trunc-line", 0)
			vfs.data = []byte(c + "\n")
			partial = ""
			expect = append(expect, c)
			verifrt.Reach("c20.tail.truncate")
			verifrt.Assert("c20.tail.noerr", rf.read(ctx, fsnotify.Write) == nil)
		}
		check()
	}
}

// ---------------- C20 (c): lines longer than the reader's buffer ----------------
// readLines is driven directly: a line of L bytes (non-uniform filler, symbolic first and last
// bytes; EXECVE records reach 8970 bytes) between two short lines is delivered intact, once, in order.
func VerifC20LongLine() {
	L := verifrt.Param("L", 4200)
	fill := make([]byte, L)
	for i := range fill {
		fill[i] = byte('a' + i%23)
	}
	long := verifrt.Str("head", 2, 2, `[^\n]`) + string(fill) + verifrt.Str("tail", 1, 1, `[^\n]`)
	content := "first\n" + long + "\n" + "last\n"
	lines := make(chan string, 4)
	n, err := readLines(context.Background(), strings.NewReader(content), lines)
	verifrt.Reach("c20.long.read")
	verifrt.Assert("c20.long.no-error", err == nil)
	verifrt.Assert("c20.long.bytes-consumed", n == int64(len(content)))
	verifrt.Assert("c20.long.three-lines", len(lines) == 3)
	if len(lines) != 3 {
		return
	}
	verifrt.Assert("c20.long.first", <-lines == "first")
	verifrt.Assert("c20.long.line-intact", <-lines == long)
	verifrt.Assert("c20.long.last", <-lines == "last")
}
