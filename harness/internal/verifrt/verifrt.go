//go:build verif

// Package verifrt is the harness API of /verif. The symbolic engine (symgo) intercepts every
// function of this package; the bodies below are the native implementation used when a
// counterexample is replayed against the real build: nondeterministic values are read, in call
// order, from the replay file named by VERIF_REPLAY.
package verifrt

import (
	"encoding/json"
	"fmt"
	"math/rand"
	"os"
	"regexp"
	"runtime"
	"sort"
	"strings"
	"sync"
	"syscall"
	"time"

	"github.com/prometheus/client_golang/prometheus"
)

type FieldSpec struct {
	Name     string
	Min, Max int
	Class    string
	Split    bool // engine hint: explore each length of this field on its own path
}

// F declares a template field: a string of Min..Max bytes drawn from Class (regexp class syntax,
// "" = any byte).
func F(name string, min, max int, class string) FieldSpec {
	return FieldSpec{name, min, max, class, false}
}

// FS is F with a case split on the field's length.
func FS(name string, min, max int, class string) FieldSpec {
	return FieldSpec{name, min, max, class, true}
}

type Tmpl struct {
	Line   string
	Fields []string
}

// ReplayEnd is the panic value that ends a native replay when the recorded path is exhausted.
type ReplayEnd struct{}

type nondetVal struct {
	Name string `json:"name"`
	Kind string `json:"kind"`
	Int  int64  `json:"int"`
	Str  []byte `json:"str"`
}

type replayFile struct {
	Property string         `json:"property"`
	Site     string         `json:"site"`
	Nondets  []nondetVal    `json:"nondets"`
	Params   map[string]int `json:"params"`
}

var (
	mu       sync.Mutex
	loaded   bool
	rf       replayFile
	pos      int
	Failures []string
	Reached  []string
	Notes    []string
	Invalid  []string
)

func load() {
	if loaded {
		return
	}
	loaded = true
	path := os.Getenv("VERIF_REPLAY")
	if path == "" {
		panic("verifrt: VERIF_REPLAY not set")
	}
	data, err := os.ReadFile(path)
	if err != nil {
		panic(err)
	}
	if err := json.Unmarshal(data, &rf); err != nil {
		panic(err)
	}
}

// Reset rewinds the replay so a harness can be run again.
func Reset() {
	mu.Lock()
	defer mu.Unlock()
	pos = 0
	Failures, Reached, Notes, Invalid = nil, nil, nil, nil
}

func next(name, kind string) nondetVal {
	mu.Lock()
	defer mu.Unlock()
	load()
	for pos < len(rf.Nondets) && rf.Nondets[pos].Kind == "env" {
		pos++ // environment readings (clock) are not replayed
	}
	if pos >= len(rf.Nondets) {
		// the engine's path ended here (it stops at the first violated obligation)
		panic(ReplayEnd{})
	}
	v := rf.Nondets[pos]
	pos++
	if v.Name != name {
		Invalid = append(Invalid, fmt.Sprintf("replay order mismatch: want %s got %s", name, v.Name))
	}
	return v
}

func Int(name string, lo, hi int) int {
	if lo == hi {
		next(name, "choose")
		return lo
	}
	v := int(next(name, "int").Int)
	if v < lo || v > hi {
		Invalid = append(Invalid, fmt.Sprintf("%s=%d outside [%d,%d]", name, v, lo, hi))
	}
	return v
}

func Bool(name string) bool { return next(name, "bool").Int != 0 }

func Choose(name string, n int) int { return int(next(name, "choose").Int) }

func checkStr(name, s string, min, max int, class string) {
	if len(s) < min || len(s) > max {
		Invalid = append(Invalid, fmt.Sprintf("%s: length %d outside [%d,%d]", name, len(s), min, max))
	}
	if !InClass(s, class) {
		Invalid = append(Invalid, fmt.Sprintf("%s: %q not in class %s", name, s, class))
	}
}

func Str(name string, min, max int, class string) string {
	s := string(next(name, "str").Str)
	checkStr(name, s, min, max, class)
	return s
}

func Template(parts ...any) Tmpl {
	var t Tmpl
	var sb strings.Builder
	for _, p := range parts {
		switch x := p.(type) {
		case string:
			sb.WriteString(x)
		case FieldSpec:
			s := string(next(x.Name, "str").Str)
			checkStr(x.Name, s, x.Min, x.Max, x.Class)
			t.Fields = append(t.Fields, s)
			sb.WriteString(s)
		default:
			panic("verifrt.Template: bad part")
		}
	}
	t.Line = sb.String()
	return t
}

func Assume(c bool) {
	if !c {
		mu.Lock()
		Invalid = append(Invalid, "assumption violated")
		mu.Unlock()
	}
}

func Assert(id string, c bool) {
	if !c {
		mu.Lock()
		Failures = append(Failures, id)
		mu.Unlock()
	}
}

func Reach(id string) {
	mu.Lock()
	Reached = append(Reached, id)
	mu.Unlock()
}

func Note(msg string) {
	mu.Lock()
	Notes = append(Notes, msg)
	mu.Unlock()
}

func And(a, b bool) bool     { return a && b }
func Or(a, b bool) bool      { return a || b }
func Not(a bool) bool        { return !a }
func Implies(a, b bool) bool { return !a || b }
func Iff(a, b bool) bool     { return a == b }

// Symbolic reports whether the harness runs inside the symbolic engine.
func Symbolic() bool { return false }

func Param(name string, def int) int {
	mu.Lock()
	defer mu.Unlock()
	load()
	if v, ok := rf.Params[name]; ok {
		return v
	}
	return def
}

var classCache = map[string]*regexp.Regexp{}

// InClass reports whether every byte of s belongs to class. Bytes >= 0x80 belong to a class iff the
// class admits non-ASCII runes.
func InClass(s, class string) bool {
	if class == "" {
		return true
	}
	mu.Lock()
	re := classCache[class]
	if re == nil {
		re = regexp.MustCompile(`^(?s:` + class + `)$`)
		classCache[class] = re
	}
	mu.Unlock()
	hi := re.MatchString("é")
	for i := 0; i < len(s); i++ {
		if s[i] >= 0x80 {
			if !hi {
				return false
			}
			continue
		}
		if !re.MatchString(s[i : i+1]) {
			return false
		}
	}
	return true
}

func IsSubstring(hay, needle string) bool { return strings.Contains(hay, needle) }
func HasPrefix(s, prefix string) bool     { return strings.HasPrefix(s, prefix) }
func MsgMentions(msg, s string) bool      { return strings.Contains(msg, s) }

// JSONField reads a string field of a JSON object produced by json.Marshal of a map[string]string.
func JSONField(raw *json.RawMessage, key string) (string, bool) {
	if raw == nil {
		return "", false
	}
	m := map[string]string{}
	if err := json.Unmarshal(*raw, &m); err != nil {
		return "", false
	}
	v, ok := m[key]
	return v, ok
}

// LoginCounts returns "method/outcome=count" for every non-zero remote-logins counter.
func LoginCounts(reg *prometheus.Registry) []string {
	mfs, err := reg.Gather()
	if err != nil {
		panic(err)
	}
	var out []string
	for _, mf := range mfs {
		if !strings.HasSuffix(mf.GetName(), "remote_logins_total") {
			continue
		}
		for _, m := range mf.GetMetric() {
			var method, outcome string
			for _, l := range m.GetLabel() {
				switch l.GetName() {
				case "method":
					method = l.GetValue()
				case "outcome":
					outcome = l.GetValue()
				}
			}
			if n := int(m.GetCounter().GetValue()); n != 0 {
				out = append(out, fmt.Sprintf("%s/%s=%d", method, outcome, n))
			}
		}
	}
	sort.Strings(out)
	return out
}

var (
	originOnce sync.Once
	origin     time.Time
)

// Unix returns the instant that lies sec seconds after the clock origin of the run. In the engine
// the clock is symbolic; natively the origin is chosen so that the real clock now reads what the
// engine's first clock reading was in the replayed model (harnesses that compare clock readings
// with Unix instants run with CLOCKSTEP=0, i.e. no time passes during a run).
func Unix(sec int) time.Time {
	originOnce.Do(func() {
		mu.Lock()
		load()
		first := int64(0)
		for _, n := range rf.Nondets {
			if n.Kind == "env" {
				first = n.Int
				break
			}
		}
		mu.Unlock()
		origin = time.Now().Add(-time.Duration(first) * time.Second)
	})
	return origin.Add(time.Duration(sec) * time.Second)
}

// AssertEqStr asserts a == b (the engine first tries the cheaper sufficient condition that both
// are the same window of one buffer).
func AssertEqStr(id string, a, b string) { Assert(id, a == b) }

// TimeLE reports a <= b (not b.Before(a)).
func TimeLE(a, b time.Time) bool { return !b.Before(a) }

// JSONMap decodes a JSON object of string values.
func JSONMap(b []byte) map[string]string {
	m := map[string]string{}
	_ = json.Unmarshal(b, &m)
	return m
}

// ---------------- FIFO and scheduling helpers ----------------

// MkFifo creates a named pipe and returns its path.
func MkFifo(name string) string {
	dir, err := os.MkdirTemp("", "verif-fifo")
	if err != nil {
		panic(err)
	}
	path := dir + "/" + name
	if err := syscall.Mkfifo(path, 0o600); err != nil {
		panic(err)
	}
	return path
}

// FifoWriter is the writing end of a named pipe.
type FifoWriter struct {
	Path string
	f    *os.File
}

// FifoOpenWriter opens the pipe for writing (blocks until a reader has it open).
func FifoOpenWriter(path string) *FifoWriter {
	f, err := os.OpenFile(path, os.O_WRONLY, 0)
	if err != nil {
		panic(err)
	}
	return &FifoWriter{Path: path, f: f}
}

// Write performs one write call with exactly these bytes.
func (w *FifoWriter) Write(b string) {
	if len(b) == 0 {
		return
	}
	if _, err := w.f.Write([]byte(b)); err != nil {
		Note("fifo write: " + err.Error())
	}
	time.Sleep(2 * time.Millisecond) // keep write boundaries visible to the reader
}

func (w *FifoWriter) Close() { _ = w.f.Close() }

// Yield is a schedule point of the harness (natively: a randomised yield, so that repeated
// replays visit different interleavings).
func Yield() {
	switch rand.Intn(3) {
	case 0:
		runtime.Gosched()
	case 1:
		time.Sleep(time.Duration(rand.Intn(200)) * time.Microsecond)
	}
}

// Quiesce returns once every other goroutine of the harness is blocked (natively: after a pause).
// The native pause ends when the process has consumed (almost) no CPU time for three consecutive
// 60 ms intervals - every goroutine is parked - or after 10 s; a fixed sleep is too short on a busy machine.
func Quiesce() {
	cpu := func() time.Duration {
		var ru syscall.Rusage
		if err := syscall.Getrusage(syscall.RUSAGE_SELF, &ru); err != nil {
			return 0
		}
		return time.Duration(ru.Utime.Nano() + ru.Stime.Nano())
	}
	deadline := time.Now().Add(10 * time.Second)
	quiet := 0
	last := cpu()
	for quiet < 3 && time.Now().Before(deadline) {
		time.Sleep(60 * time.Millisecond)
		now := cpu()
		if now-last < 1500*time.Microsecond {
			quiet++
		} else {
			quiet = 0
		}
		last = now
	}
}

// LoadFile points the native runtime at another replay file and rewinds it.
func LoadFile(path string) {
	mu.Lock()
	defer mu.Unlock()
	data, err := os.ReadFile(path)
	if err != nil {
		panic(err)
	}
	rf = replayFile{}
	if err := json.Unmarshal(data, &rf); err != nil {
		panic(err)
	}
	loaded = true
	pos = 0
	Failures, Reached, Notes, Invalid = nil, nil, nil, nil
	originOnce = sync.Once{}
}

// MkRegular creates an ordinary file (not a pipe) and returns its path.
func MkRegular(name string) string {
	dir, err := os.MkdirTemp("", "verif-file")
	if err != nil {
		panic(err)
	}
	path := dir + "/" + name
	if err := os.WriteFile(path, nil, 0o600); err != nil {
		panic(err)
	}
	return path
}

// OutputPath returns the path of a fresh, existing, empty file for the daemon's events output
// (the daemon waits until the file exists).
func OutputPath(name string) string {
	dir, err := os.MkdirTemp("", "verif-out")
	if err != nil {
		panic(err)
	}
	if err := os.WriteFile(dir+"/"+name, nil, 0o600); err != nil {
		panic(err)
	}
	return dir + "/" + name
}

// OutputEventTypes returns the "type" member of every JSON line of the events output.
func OutputEventTypes(path string) []string {
	data, err := os.ReadFile(path)
	if err != nil {
		return nil
	}
	var out []string
	for _, l := range strings.Split(string(data), "\n") {
		if strings.TrimSpace(l) == "" {
			continue
		}
		var m struct {
			Type string `json:"type"`
		}
		if json.Unmarshal([]byte(l), &m) != nil {
			out = append(out, "<torn>")
			continue
		}
		out = append(out, m.Type)
	}
	return out
}

// Advance lets sec seconds pass on the run's clock (the engine adds to its symbolic clock; the
// native replay really waits).
func Advance(sec int) {
	if sec > 0 {
		time.Sleep(time.Duration(sec) * time.Second)
	}
}

// OutputEvents returns "type|auditId|loggedAs" for every JSON line of the events output ("<torn>"
// for a line that is not one complete JSON object; the auditId of a UserLogin is a fresh uuid and
// reported as "-").
func OutputEvents(path string) []string {
	data, err := os.ReadFile(path)
	if err != nil {
		return nil
	}
	var out []string
	for _, l := range strings.Split(string(data), "\n") {
		if strings.TrimSpace(l) == "" {
			continue
		}
		var m struct {
			Type     string `json:"type"`
			Metadata struct {
				AuditID string `json:"auditId"`
			} `json:"metadata"`
			Subjects map[string]string `json:"subjects"`
		}
		if json.Unmarshal([]byte(l), &m) != nil {
			out = append(out, "<torn>")
			continue
		}
		aid := m.Metadata.AuditID
		if m.Type == "UserLogin" {
			aid = "-"
		}
		out = append(out, m.Type+"|"+aid+"|"+m.Subjects["loggedAs"])
	}
	return out
}

// KeepOpen keeps a pipe writer referenced (and therefore open) up to this point of the harness:
// an unreferenced *os.File may be closed by its finalizer, which the reader sees as end-of-stream.
func KeepOpen(ws ...*FifoWriter) { runtime.KeepAlive(ws) }
