//go:build verif

package health

import (
	"context"
	"net/http"

	"github.com/metal-toolbox/audito-maldito/internal/verifrt"
)

// C18: readiness.

type verifRW struct {
	code  int
	body  []byte
	hdr   http.Header
	calls int
}

func (w *verifRW) Header() http.Header {
	if w.hdr == nil {
		w.hdr = http.Header{}
	}
	return w.hdr
}
func (w *verifRW) Write(b []byte) (int, error) { w.body = append(w.body, b...); return len(b), nil }
func (w *verifRW) WriteHeader(c int)            { w.code = c; w.calls++ }

// verifCheckResponse: status code, overall and per-component statuses against the ghost.
func verifCheckResponse(pfx string, w *verifRW, body map[string]string, names []string, reg, ready []bool) {
	allReady := true
	nreg := 0
	for i := range names {
		if reg[i] {
			nreg++
			if !ready[i] {
				allReady = false
			}
		}
	}
	verifrt.Assert(pfx+".one-status", w.calls == 1)
	verifrt.Assert(pfx+".code-200-iff-all-ready", (w.code == http.StatusOK) == allReady)
	verifrt.Assert(pfx+".code-503-otherwise", verifrt.Or(allReady, w.code == http.StatusServiceUnavailable))
	verifrt.Assert(pfx+".overall", (body[OverallReady] == ComponentReady) == allReady)
	verifrt.Assert(pfx+".overall-domain", verifrt.Or(body[OverallReady] == ComponentReady, body[OverallReady] == ComponentNotReady))
	verifrt.Assert(pfx+".lists-exactly-registered", len(body) == nreg+1)
	for i, n := range names {
		if reg[i] {
			want := ComponentNotReady
			if ready[i] {
				want = ComponentReady
			}
			verifrt.Assert(pfx+".component-status", body[n] == want)
		}
	}
}

func VerifC18Sequential() {
	K := verifrt.Param("K", 4)
	names := []string{"alpha", "beta", "gamma"}
	reg := make([]bool, 3)
	ready := make([]bool, 3)
	h := NewHealth()
	for step := 0; step < K; step++ {
		i := verifrt.Choose("component", 3)
		switch verifrt.Choose("op", 3) {
		case 0:
			h.AddReadiness(names[i])
			reg[i], ready[i] = true, false
		case 1:
			h.OnReady(names[i])
			// a ready-mark also makes the component known to the map
			reg[i], ready[i] = true, true
		case 2:
			w := &verifRW{}
			h.readyzHandler(w, nil)
			verifrt.Reach("c18.response")
			verifCheckResponse("c18.seq", w, verifrt.JSONMap(w.body), names, reg, ready)
			isr := h.IsReady()
			all := true
			for j := range names {
				if reg[j] && !ready[j] {
					all = false
				}
			}
			verifrt.Assert("c18.seq.isready", isr == all)
		}
	}
}

// VerifC18Concurrent: a status request races with a registration and a ready-mark; the response
// must equal the response at some linearisation point.
func VerifC18Concurrent() {
	names := []string{"alpha", "beta", "gamma"}
	h := NewHealth()
	h.AddReadiness(names[0])
	h.OnReady(names[0])
	x := verifrt.Choose("x", 3)
	y := verifrt.Choose("y", 3)
	done := make(chan struct{}, 2)
	go func() { h.AddReadiness(names[x]); done <- struct{}{} }()
	go func() { h.OnReady(names[y]); done <- struct{}{} }()
	w := &verifRW{}
	h.readyzHandler(w, nil)
	<-done
	<-done
	body := verifrt.JSONMap(w.body)
	verifrt.Reach("c18.conc.response")
	// candidates: the four orders of {add x, ready y} relative to the snapshot
	ok := false
	for mask := 0; mask < 4; mask++ {
		for order := 0; order < 2; order++ {
			reg := []bool{true, false, false}
			ready := []bool{true, false, false}
			apply := func(which int) {
				if which == 0 {
					reg[x], ready[x] = true, false
				} else {
					reg[y], ready[y] = true, true
				}
			}
			first, second := 0, 1
			if order == 1 {
				first, second = 1, 0
			}
			if mask&1 != 0 {
				apply(first)
				if mask&2 != 0 {
					apply(second)
				}
			} else if mask&2 != 0 {
				continue
			}
			match := true
			all := true
			n := 0
			for i := range names {
				if reg[i] {
					n++
					want := ComponentNotReady
					if ready[i] {
						want = ComponentReady
					} else {
						all = false
					}
					if body[names[i]] != want {
						match = false
					}
				}
			}
			if len(body) != n+1 || (body[OverallReady] == ComponentReady) != all || (w.code == http.StatusOK) != all {
				match = false
			}
			if match {
				ok = true
			}
		}
	}
	verifrt.Assert("c18.conc.linearisable", ok)
	// self-consistency of the snapshot
	allOK := true
	for k, v := range body {
		if k != OverallReady && v != ComponentReady {
			allOK = false
		}
	}
	verifrt.Assert("c18.conc.consistent", (body[OverallReady] == ComponentReady) == allOK)
}

// VerifC18Wait: WaitForReady completes only when ready, and yields ctx.Err() if cancelled first.
func VerifC18Wait() {
	h := NewHealth()
	h.AddReadiness("alpha")
	ctx, cancel := context.WithCancel(context.Background())
	ch := h.WaitForReady(ctx)
	mode := verifrt.Choose("mode", 2)
	marked := false
	if mode == 0 {
		go func() { marked = true; h.OnReady("alpha") }()
	} else {
		go func() { cancel() }()
	}
	err, open := <-ch
	if mode == 0 {
		verifrt.Reach("c18.wait.ready")
		verifrt.Assert("c18.wait.closed-when-ready", !open)
		verifrt.Assert("c18.wait.only-after-ready", marked)
		verifrt.Assert("c18.wait.isready", h.IsReady())
	} else {
		verifrt.Reach("c18.wait.cancelled")
		verifrt.Assert("c18.wait.ctx-error", open && err == context.Canceled)
	}
	cancel()
}
