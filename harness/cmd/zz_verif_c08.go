//go:build verif

package cmd

import (
	"context"

	"github.com/prometheus/client_golang/prometheus"

	"github.com/metal-toolbox/audito-maldito/internal/health"
	"github.com/metal-toolbox/audito-maldito/internal/verifrt"
)

// C08: the real RunNamedPipe (flag parsing, worker wiring, errgroup) with both pipes as FIFOs.
// One failure cause per run; the daemon function must return, with a non-nil error on failure.
//
// CAUSE: 0 sshd pipe reaches end-of-stream, 1 audit pipe reaches end-of-stream, 2 unparsable audit
// line, 3 sshd path is not a named pipe, 4 audit path is not a named pipe, 5 termination signal
// (cancellation of the context main() derives from SIGTERM/SIGINT) while idle, 6 termination
// signal after traffic on both pipes, 7 termination signal before any writer has opened the pipes
// (both ingesters wait in open), 8 termination signal while only the sshd pipe has a writer,
// 9 sshd pipe reaches end-of-stream while the audit pipe has no writer yet, 10 unparsable audit
// line while the sshd pipe has no writer yet.
func VerifC08FailStop() {
	cause := verifrt.Param("CAUSE", 0)
	prometheus.DefaultRegisterer = prometheus.NewRegistry()
	sshdPath := verifrt.MkFifo("sshd-pipe")
	auditPath := verifrt.MkFifo("audit-pipe")
	if cause == 3 {
		sshdPath = verifrt.MkRegular("sshd-not-a-pipe")
	}
	if cause == 4 {
		auditPath = verifrt.MkRegular("audit-not-a-pipe")
	}
	out := verifrt.OutputPath("events.log")
	ctx, cancel := context.WithCancel(context.Background())
	defer cancel()
	args := []string{"audito-maldito", "-sshd-pipe-path", sshdPath, "-auditd-pipe-path", auditPath, "-app-events-output", out}

	done := make(chan error, 1)
	go func() { done <- RunNamedPipe(ctx, args, health.NewHealth(), nil) }()

	// the writers (rsyslog / audisp) on the other ends of the pipes
	var sw, aw *verifrt.FifoWriter
	if cause != 3 && cause != 7 && cause != 10 {
		sw = verifrt.FifoOpenWriter(sshdPath)
	}
	if cause != 4 && cause != 7 && cause != 8 && cause != 9 {
		aw = verifrt.FifoOpenWriter(auditPath)
	}
	switch cause {
	case 0, 9:
		sw.Write("4242 Failed password for bob from 10.0.0.1 port 2222 ssh2\n")
		sw.Close()
	case 1:
		aw.Close()
	case 2, 10:
		aw.Write("this is not an audit record\n")
	case 5, 7, 8:
		verifrt.Quiesce()
		cancel()
	case 6:
		sw.Write("4242 Invalid user eve from 10.0.0.9 port 2200\n")
		aw.Write("\n")
		verifrt.Quiesce()
		cancel()
	}
	err := <-done // a daemon that keeps running with part of the pipeline dead shows up as a hang
	verifrt.KeepOpen(sw, aw)
	verifrt.Reach("c08.returned")
	if cause <= 4 || cause >= 9 {
		// a worker failure: the daemon reports it (main turns a non-nil error into exit status 1)
		verifrt.Assert("c08.failure-is-reported", err != nil)
	}
	// for termination signals the statement only demands that the daemon exits
	_ = verifrt.OutputEventTypes(out)
}
