//go:build verif

package cmd

import (
	"context"

	"github.com/prometheus/client_golang/prometheus"

	"github.com/metal-toolbox/audito-maldito/internal/health"
	"github.com/metal-toolbox/audito-maldito/internal/verifrt"
)

// C10: one SSH session through the assembled daemon (real RunNamedPipe, both pipes): the events
// output holds every event exactly once as a whole line, and the UserLogin precedes every
// UserAction that carries its identity - whichever pipe is served first.
func VerifC10CausalOrder() {
	prometheus.DefaultRegisterer = prometheus.NewRegistry()
	sshdPath := verifrt.MkFifo("sshd-pipe")
	auditPath := verifrt.MkFifo("audit-pipe")
	out := verifrt.OutputPath("events.log")
	ctx, cancel := context.WithCancel(context.Background())
	defer cancel()
	args := []string{"audito-maldito", "-sshd-pipe-path", sshdPath, "-auditd-pipe-path", auditPath, "-app-events-output", out}
	done := make(chan error, 1)
	go func() { done <- RunNamedPipe(ctx, args, health.NewHealth(), nil) }()
	sw := verifrt.FifoOpenWriter(sshdPath)
	aw := verifrt.FifoOpenWriter(auditPath)

	forms := []string{
		"25007 Accepted publickey for someuser from 127.0.0.1 port 51122 ssh2: ED25519 SHA256:Pcs5TWfcOSKb7Rw\n",
		"25007 Accepted publickey for someuser from 127.0.0.1 port 51122 ssh2: ED25519-CERT SHA256:Pcs5TWfcOSKb7Rw and more text\n",
		"25007 Accepted publickey for someuser from 127.0.0.1 port 51122 ssh2: ED25519-CERT SHA256:Pcs5TWfcOSKb7Rw ID someone@example.com (serial 4) CA ED25519 SHA256:JKH45TJj6tNHO/E/VtWZGunEY7C8VLFjVFv6bDq/5VY\n",
		"25007 Accepted password for someuser from 127.0.0.1 port 51122 ssh2\n",
	}
	login := forms[verifrt.Choose("login-form", verifrt.Param("FORMS", 1))]
	records := []string{
		"type=LOGIN msg=audit(1668460768.200:30166): pid=25007 uid=0 old-auid=4294967295 auid=1000 tty=(none) old-ses=4294967295 ses=499 res=1\n",
		"type=USER_START msg=audit(1668460768.300:30167): pid=25007 uid=0 auid=1000 ses=499 msg='op=PAM:session_open acct=\"someuser\" exe=\"/usr/sbin/sshd\" hostname=127.0.0.1 addr=127.0.0.1 terminal=ssh res=success'\n",
		"type=CRED_DISP msg=audit(1668461061.134:30366): pid=25007 uid=0 auid=1000 ses=499 msg='op=PAM:setcred acct=\"someuser\" exe=\"/usr/sbin/sshd\" hostname=127.0.0.1 addr=127.0.0.1 terminal=ssh res=success'\n",
	}
	// where the sshd line arrives relative to the audit records
	at := verifrt.Choose("login-position", len(records)+1)
	oneWrite := verifrt.Choose("audit-records-in-one-write", 2) == 1
	var pending string
	for i := 0; i <= len(records); i++ {
		if i == at {
			if pending != "" {
				aw.Write(pending)
				pending = ""
			}
			sw.Write(login)
		}
		if i < len(records) {
			if oneWrite {
				pending += records[i]
			} else {
				aw.Write(records[i])
			}
		}
	}
	if pending != "" {
		aw.Write(pending)
	}
	// a later, unrelated sshd line: its UserLogin is written when the session's events are
	// already in the file
	verifrt.Quiesce()
	sw.Write("25010 Failed password for bob from 10.0.0.9 port 2200 ssh2\n")
	verifrt.Quiesce()
	cancel()
	<-done
	verifrt.KeepOpen(sw, aw)
	verifrt.Reach("c10.daemon-stopped")
	evs := verifrt.OutputEvents(out)
	logins, actions, others := 0, 0, 0
	seenLogin := false
	for _, e := range evs {
		verifrt.Assert("c10.whole-line", e != "<torn>")
		switch e {
		case "UserLogin|-|someuser":
			logins++
			seenLogin = true
		case "UserAction|499|someuser":
			actions++
			verifrt.Assert("c10.login-before-its-actions", seenLogin)
		case "UserLogin|-|bob":
			others++
		default:
			verifrt.Assert("c10.no-foreign-event", false)
		}
	}
	verifrt.Assert("c10.login-written-once", logins == 1)
	verifrt.Assert("c10.each-action-written-once", actions == len(records))
	verifrt.Assert("c10.later-login-written-once", others == 1)
}
