//go:build verif

package cmd

import (
	"context"
	"sync"

	"github.com/elastic/go-libaudit/v2/aucoalesce"
	"github.com/elastic/go-libaudit/v2/auparse"
	"github.com/metal-toolbox/auditevent"
	"github.com/prometheus/client_golang/prometheus"
	"go.uber.org/zap"

	"github.com/metal-toolbox/audito-maldito/internal/common"
	"github.com/metal-toolbox/audito-maldito/internal/metrics"
	"github.com/metal-toolbox/audito-maldito/internal/verifrt"
	"github.com/metal-toolbox/audito-maldito/processors/auditd/sessiontracker"
	"github.com/metal-toolbox/audito-maldito/processors/sshd"
)

// verifOrderEnc records the order in which the shared writer receives events; every call is a
// schedule point (the daemon's two pipelines append to one O_APPEND file without any lock).
type verifOrderEnc struct {
	mu     sync.Mutex
	events []string
}

func (e *verifOrderEnc) Encode(v any) error {
	verifrt.Yield()
	ev, _ := v.(*auditevent.AuditEvent)
	e.mu.Lock()
	defer e.mu.Unlock()
	if ev == nil {
		e.events = append(e.events, "?")
		return nil
	}
	e.events = append(e.events, ev.Type+"|"+ev.Subjects["loggedAs"])
	return nil
}

// C10, processor level ("all hand-off orders"): the real sshd processor and the real session
// tracker share one event writer and an unbuffered logins channel, as cmd.RunNamedPipe wires
// them. For every accepted-login form, every position of the login relative to the audit events
// of its session and every interleaving of the two goroutines, the UserLogin is the first event
// written and every event is written once.
func VerifC10HandOff() {
	form := verifrt.Choose("login-form", 4)
	before := verifrt.Choose("audit-events-before-login", 3)
	lines := []string{
		"Accepted publickey for someuser from 127.0.0.1 port 51122 ssh2: ED25519 SHA256:Pcs5TWfcOSKb7Rw",
		"Accepted publickey for someuser from 127.0.0.1 port 51122 ssh2: ED25519-CERT SHA256:Pcs5TWfcOSKb7Rw and more text",
		"Accepted publickey for someuser from 127.0.0.1 port 51122 ssh2: ED25519-CERT SHA256:Pcs5TWfcOSKb7Rw ID someone@example.com (serial 4) CA ED25519 SHA256:JKH45TJj6tNHO/E/VtWZGunEY7C8VLFjVFv6bDq/5VY",
		"Accepted password for someuser from 127.0.0.1 port 51122 ssh2",
	}
	enc := &verifOrderEnc{}
	ew := auditevent.NewAuditEventWriter(enc)
	logins := make(chan common.RemoteUserLogin)
	ctx, cancel := context.WithCancel(context.Background())
	defer cancel()
	sshd.SetLogger(zap.NewNop().Sugar())
	pprov := metrics.NewPrometheusMetricsProviderForRegisterer(prometheus.NewRegistry())
	proc := sshd.NewSshdProcessor(ctx, logins, "node", "mid", ew, pprov)
	tr := sessiontracker.NewSessionTracker(ew, nil)

	mk := func(typ auparse.AuditMessageType, action string) *aucoalesce.Event {
		ev := &aucoalesce.Event{Session: "499", Type: typ, Result: "success", Timestamp: verifrt.Unix(1)}
		ev.Process.PID = "25007"
		ev.Summary.Action = action
		return ev
	}
	evs := []*aucoalesce.Event{mk(auparse.AUDIT_LOGIN, "changed-login-id-to"), mk(auparse.AUDIT_USER_START, "started-session")}

	done := make(chan error, 2)
	go func() {
		done <- proc.ProcessSshdLogEntry(ctx, sshd.SshdLogEntry{Message: lines[form], PID: "25007"})
	}()
	go func() {
		for i := 0; i < before; i++ {
			if err := tr.AuditdEvent(evs[i]); err != nil {
				done <- err
				return
			}
		}
		l := <-logins
		err := tr.RemoteLogin(l)
		for i := before; i < len(evs) && err == nil; i++ {
			err = tr.AuditdEvent(evs[i])
		}
		done <- err
	}()
	e1 := <-done
	e2 := <-done
	verifrt.Reach("c10.handoff-complete")
	verifrt.Assert("c10.handoff.no-error", e1 == nil && e2 == nil)
	logs, acts := 0, 0
	for i, e := range enc.events {
		switch e {
		case "UserLogin|someuser":
			logs++
			verifrt.Assert("c10.handoff.login-is-first", i == 0)
		case "UserAction|someuser":
			acts++
		default:
			verifrt.Assert("c10.handoff.no-foreign-event", false)
		}
	}
	verifrt.Assert("c10.handoff.login-written-once", logs == 1)
	verifrt.Assert("c10.handoff.each-action-written-once", acts == len(evs))
}

// C10 ("no event is ... written twice"), sshd side: one concrete message of every recognised
// form goes through the real processor and the shared writer; each produces exactly one write.
// (The universally quantified version - every field value of every form - is C06/C11.)
func VerifC10WrittenOnce() {
	lines := []string{
		"Accepted publickey for someuser from 127.0.0.1 port 51122 ssh2: ED25519 SHA256:Pcs5TWfcOSKb7Rw",
		"Accepted publickey for someuser from 127.0.0.1 port 51122 ssh2: ED25519-CERT SHA256:Pcs5TWfcOSKb7Rw and more text",
		"Accepted publickey for someuser from 127.0.0.1 port 51122 ssh2: ED25519-CERT SHA256:Pcs5TWfcOSKb7Rw ID someone@example.com (serial 4) CA ED25519 SHA256:JKH45TJj6tNHO/E/VtWZGunEY7C8VLFjVFv6bDq/5VY",
		"Accepted password for someuser from 127.0.0.1 port 51122 ssh2",
		"Failed password for someuser from 127.0.0.1 port 51122 ssh2",
		"Certificate invalid: name is not a listed principal",
		"Certificate invalid: expired",
		"Invalid user bob from 10.0.0.1 port 2222",
		"User bob from 10.0.0.1 not allowed because not listed in AllowUsers",
		"User bob not allowed because shell /bin/zsh does not exist",
		"User bob not allowed because shell /bin/zsh is not executable",
		"User bob from 10.0.0.1 not allowed because listed in DenyUsers",
		"User bob from 10.0.0.1 not allowed because not in any group",
		"User bob from 10.0.0.1 not allowed because a group is listed in DenyGroups",
		"User bob from 10.0.0.1 not allowed because none of user's groups are listed in AllowGroups",
		"ROOT LOGIN REFUSED FROM 10.0.0.1 port 2222",
		"Authentication refused for bob: bad owner or modes for /home/bob/.ssh",
		"Nasty PTR record \"evil.example.com\" is set up for 10.0.0.1, ignoring",
		"reverse mapping checking getaddrinfo for evil.example.com [10.0.0.1] failed.",
		"Address 10.0.0.1 maps to evil.example.com, but this does not map back to the address.",
		"maximum authentication attempts exceeded for bob from 10.0.0.1 port 2222 ssh2",
		"Authentication key RSA SHA256:abcdef revoked by file /etc/ssh/revoked",
		"Error checking authentication key RSA SHA256:abcdef in revoked keys file /etc/ssh/revoked",
	}
	k := verifrt.Choose("message-form", len(lines))
	enc := &verifOrderEnc{}
	ew := auditevent.NewAuditEventWriter(enc)
	logins := make(chan common.RemoteUserLogin, 1)
	ctx, cancel := context.WithCancel(context.Background())
	defer cancel()
	sshd.SetLogger(zap.NewNop().Sugar())
	pprov := metrics.NewPrometheusMetricsProviderForRegisterer(prometheus.NewRegistry())
	proc := sshd.NewSshdProcessor(ctx, logins, "node", "mid", ew, pprov)
	err := proc.ProcessSshdLogEntry(ctx, sshd.SshdLogEntry{Message: lines[k], PID: "25007"})
	verifrt.Reach("c10.once.processed")
	verifrt.Assert("c10.once.no-error", err == nil)
	verifrt.Assert("c10.once.exactly-one-write", len(enc.events) == 1)
	if k < 4 {
		verifrt.Assert("c10.once.one-login-forwarded", len(logins) == 1)
	} else {
		verifrt.Assert("c10.once.nothing-forwarded", len(logins) == 0)
	}
}
