//go:build verif

package auditlog

import (
	"context"

	"go.uber.org/zap"

	"github.com/metal-toolbox/audito-maldito/ingesters/namedpipe"
	"github.com/metal-toolbox/audito-maldito/internal/health"
	"github.com/metal-toolbox/audito-maldito/internal/verifrt"
)

// C13 (audit ingester): blocked handing a record downstream because the consumer has stopped and
// the buffer is full; cancellation must make it return.
func VerifC13AuditLogBackPressure() {
	c := verifrt.Param("CAP", 1)
	ch := make(chan string, c)
	for i := 0; i < c; i++ {
		ch <- "queued"
	}
	np := namedpipe.NewNamedPipeIngester(zap.NewNop().Sugar(), health.NewHealth())
	a := NewAuditLogIngester("/nonexistent", ch, np)
	ctx, cancel := context.WithCancel(context.Background())
	done := make(chan struct{})
	go func() {
		_ = a.Process(ctx, "type=LOGIN msg=audit(1.0:1): x")
		close(done)
	}()
	verifrt.Quiesce()
	verifrt.Reach("c13.auditlog.blocked")
	cancel()
	<-done // a worker that never returns shows up as a hang
	verifrt.Reach("c13.auditlog.returned")
	verifrt.Assert("c13.auditlog.nothing-after-return", len(ch) == c)
}

// The same worker through its pipe: record arrives on the FIFO while the channel is full.
func VerifC13AuditLogIngest() {
	c := verifrt.Param("CAP", 1)
	ch := make(chan string, c)
	for i := 0; i < c; i++ {
		ch <- "queued"
	}
	path := verifrt.MkFifo("audit-pipe")
	np := namedpipe.NewNamedPipeIngester(zap.NewNop().Sugar(), health.NewHealth())
	a := NewAuditLogIngester(path, ch, np)
	ctx, cancel := context.WithCancel(context.Background())
	done := make(chan struct{})
	var err error
	go func() {
		err = a.Ingest(ctx)
		close(done)
	}()
	w := verifrt.FifoOpenWriter(path)
	w.Write("type=LOGIN msg=audit(1.0:1): x\n")
	verifrt.Quiesce()
	cancel()
	<-done
	verifrt.KeepOpen(w)
	verifrt.Reach("c13.auditlog.ingest-returned")
	verifrt.Assert("c13.auditlog.ingest-error", err != nil)
}
