//go:build verif

package namedpipe

import (
	"context"
	"errors"
	"io"
	"strings"

	"go.uber.org/zap"

	"github.com/metal-toolbox/audito-maldito/internal/health"
	"github.com/metal-toolbox/audito-maldito/internal/verifrt"
)

var errVerifCallback = errors.New("verif: injected callback failure")

// C12: framing of a byte stream into delimiter-terminated records, for every partition of the
// stream into write calls and a callback error at any record index.
func VerifC12Framing() {
	T := verifrt.Param("T", 4)
	stream := verifrt.Str("stream", T, T, "")
	// partition into writes
	var chunks []string
	for pos := 0; pos < T; {
		n := 1 + verifrt.Choose("chunk", T-pos)
		chunks = append(chunks, stream[pos:pos+n])
		pos += n
	}
	// ghost: the terminated records, in order
	var want []string
	start := 0
	for i := 0; i < T; i++ {
		if stream[i] == '\n' {
			want = append(want, stream[start:i])
			start = i + 1
		}
	}
	failAt := verifrt.Choose("callback-error-at", len(want)+1) // == len(want): never

	path := verifrt.MkFifo("pipe")
	n := NewNamedPipeIngester(zap.NewNop().Sugar(), health.NewHealth())
	go func() {
		w := verifrt.FifoOpenWriter(path)
		for _, c := range chunks {
			w.Write(c)
		}
		w.Close()
	}()
	var got []string
	err := n.Ingest(context.Background(), path, '\n', func(_ context.Context, rec string) error {
		got = append(got, rec)
		if len(got)-1 == failAt {
			return errVerifCallback
		}
		return nil
	})
	verifrt.Reach("c12.returned")
	expectCalls := len(want)
	if failAt < len(want) {
		expectCalls = failAt + 1
		verifrt.Reach("c12.callback-error")
		verifrt.Assert("c12.callback-error-returned-unchanged", err == errVerifCallback)
	} else {
		verifrt.Assert("c12.eof-is-an-error", err != nil)
		if err != nil {
			verifrt.Assert("c12.eof-error", errors.Is(err, io.EOF))
		}
	}
	verifrt.Assert("c12.one-callback-per-record", len(got) == expectCalls)
	if len(got) != expectCalls {
		return
	}
	for i := range got {
		verifrt.Reach("c12.record")
		// the record's bytes; the single trailing delimiter may or may not be part of the argument
		// (C07 decides that question)
		verifrt.Assert("c12.record-bytes", verifrt.Or(got[i] == want[i], got[i] == want[i]+"\n"))
	}
}

// VerifC12LongRecord: records longer than the reader's internal buffer (bufio: 4096 bytes) are
// still one callback each. The long record's bytes are concrete except for a few symbolic ones;
// the split of the stream into writes is a decision.
func VerifC12LongRecord() {
	L := verifrt.Param("L", 4100)
	head := verifrt.Str("head", 2, 2, `[^\n]`)
	long := head + strings.Repeat("x", L) + verifrt.Str("tail", 1, 1, `[^\n]`)
	stream := "a\n" + long + "\n" + "\n" + "b\n"
	want := []string{"a", long, "", "b"}
	var chunks []string
	switch verifrt.Choose("chunking", 3) {
	case 0:
		chunks = []string{stream}
	case 1: // split inside the long record, at the buffer size
		chunks = []string{stream[:4096], stream[4096:]}
	case 2: // three pieces with boundaries around the long record's end
		chunks = []string{stream[:2], stream[2 : len(long)+1], stream[len(long)+1:]}
	}
	path := verifrt.MkFifo("pipe")
	n := NewNamedPipeIngester(zap.NewNop().Sugar(), health.NewHealth())
	go func() {
		w := verifrt.FifoOpenWriter(path)
		for _, c := range chunks {
			w.Write(c)
		}
		w.Close()
	}()
	var got []string
	err := n.Ingest(context.Background(), path, '\n', func(_ context.Context, rec string) error {
		got = append(got, rec)
		return nil
	})
	verifrt.Reach("c12.long.returned")
	verifrt.Assert("c12.long.eof-is-an-error", err != nil)
	verifrt.Assert("c12.long.one-callback-per-record", len(got) == len(want))
	if len(got) != len(want) {
		return
	}
	for i := range got {
		verifrt.Assert("c12.long.record-bytes", verifrt.Or(got[i] == want[i], got[i] == want[i]+"\n"))
	}
}

// C13 (named-pipe worker): cancellation while waiting for a writer, while reading an idle pipe,
// and between records; nothing is delivered after the worker returned.
func VerifC13NamedPipe() {
	state := verifrt.Param("STATE", 0)
	path := verifrt.MkFifo("pipe")
	n := NewNamedPipeIngester(zap.NewNop().Sugar(), health.NewHealth())
	ctx, cancel := context.WithCancel(context.Background())
	calls := 0
	var err error
	done := make(chan struct{})
	go func() {
		err = n.Ingest(ctx, path, '\n', func(context.Context, string) error { calls++; return nil })
		close(done)
	}()
	var w *verifrt.FifoWriter
	switch state {
	case 0: // no writer ever opens the pipe
	case 1: // writer connected, pipe idle
		w = verifrt.FifoOpenWriter(path)
	case 2: // one record delivered, then idle with a half-written record pending
		w = verifrt.FifoOpenWriter(path)
		w.Write("a\nb")
	case 3: // the writer delivered a record and went away (end-of-stream) before the cancellation
		w = verifrt.FifoOpenWriter(path)
		w.Write("a\n")
		w.Close()
	}
	defer verifrt.KeepOpen(w)
	verifrt.Quiesce()
	before := calls
	cancel()
	<-done
	verifrt.Reach("c13.pipe.returned")
	verifrt.Assert("c13.pipe.error", err != nil)
	verifrt.Quiesce()
	verifrt.Assert("c13.pipe.nothing-after-return", calls == before)
	if state >= 2 {
		verifrt.Assert("c13.pipe.delivered-before", before == 1)
	}
}
