//go:build verif

package syslog

import (
	"context"
	"strings"

	"go.uber.org/zap"

	"github.com/metal-toolbox/audito-maldito/ingesters/namedpipe"
	"github.com/metal-toolbox/audito-maldito/internal/health"
	"github.com/metal-toolbox/audito-maldito/internal/verifrt"
	"github.com/metal-toolbox/audito-maldito/processors/sshd"
)

// C07 (sshd half): the line '<pid> <pad><message>\n' delivered through the pipe reaches the sshd
// processor as exactly (pid, message). The processor is a function of that pair (plus clock and
// its configuration), so equal arguments mean equal events and equal forwarded logins - the
// processor itself is the subject of C05/C06/C11/C17.

type verifCapture struct{ got []sshd.SshdLogEntry }

func (c *verifCapture) ProcessSshdLogEntry(_ context.Context, sm sshd.SshdLogEntry) error {
	c.got = append(c.got, sm)
	return nil
}

func VerifC07SyslogFraming() {
	M := verifrt.Param("M", 10)
	t := verifrt.Template(verifrt.F("pid", 1, 3, `[0-9]`), " ", verifrt.F("pad", 0, 2, `[ ]`), verifrt.F("msg", 1, M, `[^\n]`), "\n")
	pid, msg := t.Fields[0], t.Fields[2]
	verifrt.Assume(msg[0] != ' ') // the message proper does not start with padding; inner spacing is arbitrary

	capt := &verifCapture{}
	np := namedpipe.NewNamedPipeIngester(zap.NewNop().Sugar(), health.NewHealth())
	path := verifrt.MkFifo("sshd-pipe")
	s := NewSyslogIngester(path, capt, np)
	go func() {
		w := verifrt.FifoOpenWriter(path)
		w.Write(t.Line)
		w.Close()
	}()
	_ = s.Ingest(context.Background()) // returns at end of stream
	verifrt.Reach("c07.sshd.delivered")
	verifrt.Assert("c07.sshd.one-entry", len(capt.got) == 1)
	if len(capt.got) != 1 {
		return
	}
	verifrt.AssertEqStr("c07.sshd.pid", capt.got[0].PID, pid)
	verifrt.AssertEqStr("c07.sshd.message", capt.got[0].Message, msg)
}

// C11 at the ingester ("any byte string presented as an sshd log line with any PID token"): the
// PID token and the message the ingester hands to the processor are verbatim substrings of the
// line, so what the processor extracts verbatim from the message (C11's processor-level runs) is
// verbatim text of the line; no error, no panic, exactly one hand-over per line.
func VerifC11IngesterLine() {
	N := verifrt.Param("N", 8)
	line := verifrt.Str("line", 0, N, `[^\n]`)
	capt := &verifCapture{}
	s := NewSyslogIngester("unused", capt, namedpipe.NewNamedPipeIngester(zap.NewNop().Sugar(), health.NewHealth()))
	err := s.Process(context.Background(), line+"\n")
	verifrt.Reach("c11.ingester.processed")
	verifrt.Assert("c11.ingester.no-error", err == nil)
	verifrt.Assert("c11.ingester.one-entry", len(capt.got) == 1)
	if len(capt.got) != 1 {
		return
	}
	verifrt.Assert("c11.ingester.pid-verbatim", verifrt.IsSubstring(line, capt.got[0].PID))
	verifrt.Assert("c11.ingester.message-verbatim", verifrt.IsSubstring(line, capt.got[0].Message))
}

// C07 for records longer than the reader's 4096-byte buffer (sshd messages with long fields,
// EXECVE records up to 8970 bytes): the framed line still reaches the processor as exactly
// (pid, message), in one hand-over.
func VerifC07LongRecord() {
	L := verifrt.Param("L", 4100)
	pid := verifrt.Str("pid", 1, 3, `[0-9]`)
	msg := verifrt.Str("head", 2, 2, `[^\n ]`) + strings.Repeat("x", L) + verifrt.Str("tail", 1, 1, `[^\n ]`)
	capt := &verifCapture{}
	np := namedpipe.NewNamedPipeIngester(zap.NewNop().Sugar(), health.NewHealth())
	path := verifrt.MkFifo("sshd-pipe")
	s := NewSyslogIngester(path, capt, np)
	go func() {
		w := verifrt.FifoOpenWriter(path)
		w.Write("1 short\n" + pid + " " + msg + "\n")
		w.Close()
	}()
	_ = s.Ingest(context.Background()) // returns at end of stream
	verifrt.Reach("c07.long.delivered")
	verifrt.Assert("c07.long.one-entry-per-line", len(capt.got) == 2)
	if len(capt.got) != 2 {
		return
	}
	verifrt.AssertEqStr("c07.long.pid", capt.got[1].PID, pid)
	verifrt.Assert("c07.long.message", capt.got[1].Message == msg)
}
