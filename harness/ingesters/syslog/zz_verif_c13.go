//go:build verif

package syslog

import (
	"context"

	"github.com/metal-toolbox/auditevent"
	"github.com/prometheus/client_golang/prometheus"
	"go.uber.org/zap"

	"github.com/metal-toolbox/audito-maldito/ingesters/namedpipe"
	"github.com/metal-toolbox/audito-maldito/internal/common"
	"github.com/metal-toolbox/audito-maldito/internal/health"
	"github.com/metal-toolbox/audito-maldito/internal/metrics"
	"github.com/metal-toolbox/audito-maldito/internal/verifrt"
	"github.com/metal-toolbox/audito-maldito/processors/sshd"
)

type verifEnc struct{ n int }

func (e *verifEnc) Encode(any) error { e.n++; return nil }

// C13 (sshd pipe ingester): blocked handing a login to a correlator that never becomes ready.
func VerifC13SyslogHandOff() {
	sshd.SetLogger(zap.NewNop().Sugar())
	enc := &verifEnc{}
	logins := make(chan common.RemoteUserLogin) // never received from
	ctx, cancel := context.WithCancel(context.Background())
	pprov := metrics.NewPrometheusMetricsProviderForRegisterer(prometheus.NewRegistry())
	proc := sshd.NewSshdProcessor(ctx, logins, "node", "mid", auditevent.NewAuditEventWriter(enc), pprov)
	np := namedpipe.NewNamedPipeIngester(zap.NewNop().Sugar(), health.NewHealth())
	path := verifrt.MkFifo("sshd-pipe")
	s := NewSyslogIngester(path, proc, np)
	done := make(chan struct{})
	var err error
	go func() {
		err = s.Ingest(ctx)
		close(done)
	}()
	w := verifrt.FifoOpenWriter(path)
	lines := []string{
		"4242 Accepted password for alice from 10.0.0.1 port 2222 ssh2\n",
		"4242 Accepted publickey for alice from 10.0.0.1 port 2222 ssh2: ED25519 SHA256:abcdef\n",
		"4242 Accepted publickey for alice from 10.0.0.1 port 2222 ssh2: ED25519-CERT SHA256:abcdef ID alice@example (serial 7) CA ED25519 SHA256:ghijkl\n",
		"4242 Accepted publickey for alice from 10.0.0.1 port 2222 ssh2: ED25519 SHA256:abcdef and stuff\n",
	}
	w.Write(lines[verifrt.Param("FORM", 0)])
	verifrt.Quiesce()
	verifrt.Reach("c13.syslog.blocked")
	written := enc.n
	cancel()
	<-done
	verifrt.KeepOpen(w)
	verifrt.Reach("c13.syslog.returned")
	verifrt.Assert("c13.syslog.error", err != nil)
	verifrt.Quiesce()
	verifrt.Assert("c13.syslog.nothing-after-return", enc.n == written)
}
