package main

// Loading /repo's current working tree (with harness overlay) into SSA.

import (
	"fmt"
	"go/types"
	"os"
	"path/filepath"
	"sort"
	"strings"
	"sync"

	"golang.org/x/tools/go/packages"
	"golang.org/x/tools/go/ssa"
	"golang.org/x/tools/go/ssa/ssautil"
)

const repoModule = "github.com/metal-toolbox/audito-maldito"

type Loaded struct {
	prog               *ssa.Program
	pkgs               []*packages.Package
	sizes              types.Sizes
	runtimeErrorString types.Type
	initOrder          []*ssa.Package
	initExtraPkg       map[*ssa.Package]bool // inits that only runs asking for them execute (plan's init_extra)
	stubCache          sync.Map              // *ssa.Function -> stubFn or nil marker
	repoFnCache        sync.Map
	overlayFiles       map[string]string // virtual path -> real path
}

// initWhitelist lists packages whose package initialisers are executed by the engine.
var initWhitelist = []string{
	repoModule,
	"io", "io/fs", "context", "strconv", "sort", "bufio", "bytes", "strings", "unicode/utf8",
	"math", "math/bits", "time",
	"github.com/metal-toolbox/auditevent",
	"golang.org/x/sync/errgroup",
	"github.com/cenkalti/backoff/v4",
	"github.com/fsnotify/fsnotify",
}

var initExtra []string

func initAllowed(path string) bool {
	for _, w := range append(initWhitelist, initExtra...) {
		if path == w || (w == repoModule && strings.HasPrefix(path, w+"/")) {
			return true
		}
	}
	return false
}

// harnessOverlay maps every file under /verif/harness/<rel>/ to /repo/<rel>/.
func harnessOverlay(harnessDir, repoDir string) (map[string][]byte, map[string]string, error) {
	ov := map[string][]byte{}
	files := map[string]string{}
	err := filepath.Walk(harnessDir, func(path string, info os.FileInfo, err error) error {
		if err != nil || info.IsDir() || !strings.HasSuffix(path, ".go") {
			return err
		}
		rel, _ := filepath.Rel(harnessDir, path)
		data, err := os.ReadFile(path)
		if err != nil {
			return err
		}
		dst := filepath.Join(repoDir, rel)
		ov[dst] = data
		files[dst] = path
		return nil
	})
	return ov, files, err
}

func Load(repoDir, harnessDir string, patterns []string) (*Loaded, error) {
	ov, files, err := harnessOverlay(harnessDir, repoDir)
	if err != nil {
		return nil, err
	}
	cfg := &packages.Config{
		Mode:       packages.LoadAllSyntax,
		Dir:        repoDir,
		Overlay:    ov,
		BuildFlags: []string{"-tags=verif", "-mod=mod"},
		Env:        append(os.Environ(), "GOFLAGS=-mod=mod", "GOPROXY=off", "GOSUMDB=off", "GOTOOLCHAIN=local"),
	}
	pkgs, err := packages.Load(cfg, patterns...)
	if err != nil {
		return nil, err
	}
	var errs []string
	packages.Visit(pkgs, nil, func(p *packages.Package) {
		for _, e := range p.Errors {
			errs = append(errs, e.Error())
		}
	})
	if len(errs) > 0 {
		return nil, fmt.Errorf("load errors:\n%s", strings.Join(errs, "\n"))
	}
	prog, _ := ssautil.AllPackages(pkgs, ssa.InstantiateGenerics|ssa.BareInits)
	prog.Build()
	ld := &Loaded{prog: prog, pkgs: pkgs, sizes: types.SizesFor("gc", "amd64"), overlayFiles: files, initExtraPkg: map[*ssa.Package]bool{}}
	if rt := prog.ImportedPackage("runtime"); rt != nil {
		ld.runtimeErrorString = rt.Type("errorString").Object().Type()
	} else {
		return nil, fmt.Errorf("program does not include runtime")
	}
	// init order: dependency order over the import graph, whitelisted packages only
	seen := map[string]bool{}
	var order []*ssa.Package
	var visit func(p *packages.Package)
	visit = func(p *packages.Package) {
		if seen[p.PkgPath] {
			return
		}
		seen[p.PkgPath] = true
		var imps []string
		for k := range p.Imports {
			imps = append(imps, k)
		}
		sort.Strings(imps)
		for _, k := range imps {
			visit(p.Imports[k])
		}
		if initAllowed(p.PkgPath) {
			if sp := prog.Package(p.Types); sp != nil {
				order = append(order, sp)
				for _, w := range initExtra {
					if w == p.PkgPath {
						ld.initExtraPkg[sp] = true
					}
				}
			}
		}
	}
	for _, p := range pkgs {
		visit(p)
	}
	ld.initOrder = order
	return ld, nil
}

func (ld *Loaded) isRepoFn(fn *ssa.Function) bool {
	if v, ok := ld.repoFnCache.Load(fn); ok {
		return v.(bool)
	}
	r := false
	if pkg := fnPkgPath(fn); strings.HasPrefix(pkg, repoModule) && !strings.HasSuffix(pkg, "/verifrt") {
		name := fn.Name()
		if root := rootFn(fn); root != nil {
			name = root.Name()
		}
		r = !strings.HasPrefix(name, "Verif") && !strings.HasPrefix(name, "verif")
		if r && fn.Pos().IsValid() {
			file := ld.prog.Fset.Position(fn.Pos()).Filename
			if strings.Contains(filepath.Base(file), "zz_verif") {
				r = false
			}
		}
	}
	ld.repoFnCache.Store(fn, r)
	return r
}

func rootFn(fn *ssa.Function) *ssa.Function {
	for fn.Parent() != nil {
		fn = fn.Parent()
	}
	return fn
}

func fnPkgPath(fn *ssa.Function) string {
	fn = rootFn(fn)
	if fn.Pkg != nil {
		return fn.Pkg.Pkg.Path()
	}
	if o := fn.Origin(); o != nil && o.Pkg != nil {
		return o.Pkg.Pkg.Path()
	}
	if fn.Object() != nil && fn.Object().Pkg() != nil {
		return fn.Object().Pkg().Path()
	}
	return ""
}

func (ld *Loaded) findFunc(pkgPath, name string) *ssa.Function {
	for _, sp := range ld.prog.AllPackages() {
		if sp.Pkg.Path() == pkgPath {
			return sp.Func(name)
		}
	}
	return nil
}
