package main

// Happens-before data-race detection (vector clocks), enabled per plan (Config.Race).
// Synchronisation edges: mutex unlock->lock, go statement, channel send->receive (and
// receive->send for unbuffered channels), close->receive, WaitGroup Done->Wait, sync.Once,
// atomics (treated as acquire+release on the cell). Memory cells are the interpreter's heap
// cells (*value: variables, struct fields, slice/array elements) and map objects.

import "fmt"

type vclock []int

func (v vclock) get(i int) int {
	if i < len(v) {
		return v[i]
	}
	return 0
}

func vcJoin(a, b vclock) vclock {
	n := len(a)
	if len(b) > n {
		n = len(b)
	}
	r := make(vclock, n)
	for i := range r {
		x, y := a.get(i), b.get(i)
		if y > x {
			x = y
		}
		r[i] = x
	}
	return r
}

func vcCopy(a vclock) vclock { return append(vclock{}, a...) }

type access struct {
	tid, clk int
	where    string
}

type cellShadow struct {
	w     access
	hasW  bool
	reads map[int]access
}

type raceState struct {
	cells map[interface{}]*cellShadow
	sync  map[interface{}]vclock
	found bool
}

func (p *pathCtx) raceOn() bool { return p.race != nil && !p.race.found }

func (p *pathCtx) tvc(t *thread) vclock {
	for len(t.vc) <= t.id {
		t.vc = append(t.vc, 0)
	}
	if t.vc[t.id] == 0 {
		t.vc[t.id] = 1
	}
	return t.vc
}

func (p *pathCtx) tick(t *thread) {
	p.tvc(t)
	t.vc[t.id]++
}

// acquire: the current thread learns everything released on key.
func (p *pathCtx) raceAcquire(key interface{}) {
	if !p.raceOn() {
		return
	}
	if v, ok := p.race.sync[key]; ok {
		p.cur.vc = vcJoin(p.tvc(p.cur), v)
	}
}

// release: publish the current thread's clock on key.
func (p *pathCtx) raceRelease(key interface{}) {
	if !p.raceOn() {
		return
	}
	p.race.sync[key] = vcJoin(p.race.sync[key], p.tvc(p.cur))
	p.tick(p.cur)
}

func (p *pathCtx) raceFork(child *thread) {
	if !p.raceOn() {
		return
	}
	child.vc = vcCopy(p.tvc(p.cur))
	p.tvc(child)
	p.tick(p.cur)
}

func (p *pathCtx) hb(a access) bool { // a happens-before the current point of the current thread
	return a.clk <= p.tvc(p.cur).get(a.tid)
}

func (p *pathCtx) raceAccess(key interface{}, write bool) {
	if !p.raceOn() || len(p.threads) < 2 {
		return
	}
	cur := p.cur
	sh := p.race.cells[key]
	if sh == nil {
		sh = &cellShadow{reads: map[int]access{}}
		p.race.cells[key] = sh
	}
	me := access{cur.id, p.tvc(cur)[cur.id], ""}
	report := func(other access, kind string) {
		p.race.found = true
		me.where = p.interp.where()
		msg := fmt.Sprintf("data race: %s by goroutine %q%s is not ordered with %s by goroutine %q%s", map[bool]string{true: "write", false: "read"}[write], cur.name, me.where, kind, p.threads[other.tid].name, other.where)
		p.raceOutcome(msg)
	}
	if sh.hasW && sh.w.tid != cur.id && !p.hb(sh.w) {
		report(sh.w, "an earlier write")
		return
	}
	if write {
		for _, r := range sh.reads {
			if r.tid != cur.id && !p.hb(r) {
				report(r, "an earlier read")
				return
			}
		}
		me.where = p.interp.where()
		sh.w, sh.hasW = me, true
		sh.reads = map[int]access{}
	} else {
		me.where = p.interp.where()
		sh.reads[cur.id] = me
	}
}

func (p *pathCtx) raceOutcome(msg string) {
	st := p.ex.site("norace")
	st.Evaluated++
	st.Symbolic++
	r, m := p.checkModel(p.ts.True, p.ex.cfg.AssertMs)
	if r == Sat {
		st.Violated++
		p.violation("norace", msg, m)
	} else if r == Unknown {
		st.Unknown++
	}
	p.abort("stop", "data race")
}
