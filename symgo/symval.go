package main

// Symbolic values layered on the boxed value representation of the interpreter.

import (
	"fmt"
	"go/token"
	"go/types"
)

// symInt is an integer of basic kind k whose value is the bit-vector term t.
type symInt struct {
	t *Term
	k types.BasicKind
}

// symBool is a boolean whose value is the Bool term t.
type symBool struct{ t *Term }

// symBuf is an immutable vector of byte terms.
type symBuf struct {
	id   int
	name string
	b    []*Term // each of sort 8
}

// symStr is a string value: bytes buf[off : off+n], off and n are 64-bit terms.
// max is a static upper bound on n.
type symStr struct {
	buf *symBuf
	off *Term
	n   *Term
	max int
}

func kindWidth(k types.BasicKind) Sort {
	switch k {
	case types.Int8, types.Uint8:
		return 8
	case types.Int16, types.Uint16:
		return 16
	case types.Int32, types.Uint32:
		return 32
	case types.Int, types.Int64, types.Uint, types.Uint64, types.Uintptr:
		return 64
	}
	panic(fmt.Sprintf("kindWidth: %v", k))
}

func kindSigned(k types.BasicKind) bool {
	switch k {
	case types.Int, types.Int8, types.Int16, types.Int32, types.Int64:
		return true
	}
	return false
}

// intKindOf returns the basic kind of a concrete integer value.
func intKindOf(v value) (types.BasicKind, uint64, bool) {
	switch x := v.(type) {
	case int:
		return types.Int, uint64(x), true
	case int8:
		return types.Int8, uint64(x), true
	case int16:
		return types.Int16, uint64(x), true
	case int32:
		return types.Int32, uint64(x), true
	case int64:
		return types.Int64, uint64(x), true
	case uint:
		return types.Uint, uint64(x), true
	case uint8:
		return types.Uint8, uint64(x), true
	case uint16:
		return types.Uint16, uint64(x), true
	case uint32:
		return types.Uint32, uint64(x), true
	case uint64:
		return types.Uint64, x, true
	case uintptr:
		return types.Uintptr, uint64(x), true
	}
	return 0, 0, false
}

func concreteInt(k types.BasicKind, v uint64) value {
	switch k {
	case types.Int:
		return int(v)
	case types.Int8:
		return int8(v)
	case types.Int16:
		return int16(v)
	case types.Int32:
		return int32(v)
	case types.Int64:
		return int64(v)
	case types.Uint:
		return uint(v)
	case types.Uint8:
		return uint8(v)
	case types.Uint16:
		return uint16(v)
	case types.Uint32:
		return uint32(v)
	case types.Uint64:
		return v
	case types.Uintptr:
		return uintptr(v)
	}
	panic("concreteInt: bad kind")
}

func isSym(v value) bool {
	switch v.(type) {
	case symInt, symBool, symStr:
		return true
	}
	return false
}

// intTerm returns the term and kind of an integer value (symbolic or concrete).
func (p *pathCtx) intTerm(v value) (*Term, types.BasicKind) {
	if s, ok := v.(symInt); ok {
		return s.t, s.k
	}
	k, u, ok := intKindOf(v)
	if !ok {
		panic(fmt.Sprintf("intTerm: not an integer: %T", v))
	}
	return p.ts.BV(u, kindWidth(k)), k
}

func (p *pathCtx) boolTerm(v value) *Term {
	switch x := v.(type) {
	case bool:
		return p.ts.Bool(x)
	case symBool:
		return x.t
	}
	panic(fmt.Sprintf("boolTerm: not a bool: %T", v))
}

func (p *pathCtx) mkInt(t *Term, k types.BasicKind) value {
	if t.IsConst() {
		if kindSigned(k) {
			return concreteInt(k, uint64(signExt(t.val, t.sort)))
		}
		return concreteInt(k, t.val)
	}
	return symInt{t, k}
}

func (p *pathCtx) mkBool(t *Term) value {
	if t.IsConst() {
		return t.val == 1
	}
	return symBool{t}
}

// i64 returns a 64-bit signed view of an integer value as a term.
func (p *pathCtx) i64(v value) *Term {
	t, k := p.intTerm(v)
	return p.ts.Resize(t, 64, kindSigned(k))
}

func (p *pathCtx) symBinop(op token.Token, t types.Type, x, y value) value {
	ts := p.ts
	// strings
	_, xs := x.(symStr)
	_, ys := y.(symStr)
	if xs || ys {
		return p.strBinop(op, x, y)
	}
	// bools
	if _, ok := x.(symBool); ok || isBoolVal(y) && isBoolSym(y) {
		_ = ok
	}
	if isBoolVal(x) && isBoolVal(y) {
		a, b := p.boolTerm(x), p.boolTerm(y)
		switch op {
		case token.EQL:
			return p.mkBool(ts.Eq(a, b))
		case token.NEQ:
			return p.mkBool(ts.Not(ts.Eq(a, b)))
		}
		panic("symBinop: bad bool op " + op.String())
	}
	// integers
	a, ka := p.intTerm(x)
	if op == token.SHL || op == token.SHR {
		b, kb := p.intTerm(y)
		w := a.sort
		var sh *Term
		if b.sort <= w {
			sh = ts.Resize(b, w, false)
		} else {
			sh = ts.Extract(int(w)-1, 0, b)
		}
		var r *Term
		switch {
		case op == token.SHL:
			r = ts.BvBin(OpBvShl, a, sh)
		case kindSigned(ka):
			r = ts.BvBin(OpBvAshr, a, sh)
		default:
			r = ts.BvBin(OpBvLshr, a, sh)
		}
		if b.sort > w {
			// shift counts >= 2^w are lost by truncation: saturate
			big := ts.Not(ts.Cmp(OpBvUle, b, ts.BV(uint64(w), b.sort)))
			var sat *Term
			if op == token.SHR && kindSigned(ka) {
				sat = ts.BvBin(OpBvAshr, a, ts.BV(uint64(w)-1, w))
			} else {
				sat = ts.BV(0, w)
			}
			r = ts.Ite(big, sat, r)
		}
		_ = kb
		return p.mkInt(r, ka)
	}
	b, kb := p.intTerm(y)
	if a.sort != b.sort {
		panic(fmt.Sprintf("symBinop: width mismatch %v %v (%v)", ka, kb, op))
	}
	signed := kindSigned(ka)
	switch op {
	case token.ADD:
		return p.mkInt(ts.BvBin(OpBvAdd, a, b), ka)
	case token.SUB:
		return p.mkInt(ts.BvBin(OpBvSub, a, b), ka)
	case token.MUL:
		return p.mkInt(ts.BvBin(OpBvMul, a, b), ka)
	case token.QUO, token.REM:
		zero := ts.Eq(b, ts.BV(0, b.sort))
		if p.branch(zero, "divzero") {
			panic(targetPanic{"runtime error: integer divide by zero"})
		}
		var o Op
		switch {
		case op == token.QUO && signed:
			o = OpBvSDiv
		case op == token.QUO:
			o = OpBvUDiv
		case signed:
			o = OpBvSRem
		default:
			o = OpBvURem
		}
		return p.mkInt(ts.BvBin(o, a, b), ka)
	case token.AND:
		return p.mkInt(ts.BvBin(OpBvAnd, a, b), ka)
	case token.OR:
		return p.mkInt(ts.BvBin(OpBvOr, a, b), ka)
	case token.XOR:
		return p.mkInt(ts.BvBin(OpBvXor, a, b), ka)
	case token.AND_NOT:
		return p.mkInt(ts.BvBin(OpBvAnd, a, ts.BvUn(OpBvNot, b)), ka)
	case token.EQL:
		return p.mkBool(ts.Eq(a, b))
	case token.NEQ:
		return p.mkBool(ts.Not(ts.Eq(a, b)))
	case token.LSS:
		if signed {
			return p.mkBool(ts.Cmp(OpBvSlt, a, b))
		}
		return p.mkBool(ts.Cmp(OpBvUlt, a, b))
	case token.LEQ:
		if signed {
			return p.mkBool(ts.Cmp(OpBvSle, a, b))
		}
		return p.mkBool(ts.Cmp(OpBvUle, a, b))
	case token.GTR:
		if signed {
			return p.mkBool(ts.Cmp(OpBvSlt, b, a))
		}
		return p.mkBool(ts.Cmp(OpBvUlt, b, a))
	case token.GEQ:
		if signed {
			return p.mkBool(ts.Cmp(OpBvSle, b, a))
		}
		return p.mkBool(ts.Cmp(OpBvUle, b, a))
	}
	panic("symBinop: unsupported op " + op.String())
}

func isBoolVal(v value) bool {
	switch v.(type) {
	case bool, symBool:
		return true
	}
	return false
}
func isBoolSym(v value) bool { _, ok := v.(symBool); return ok }

func (p *pathCtx) symUnop(op token.Token, x value) value {
	switch v := x.(type) {
	case symBool:
		if op == token.NOT {
			return p.mkBool(p.ts.Not(v.t))
		}
	case symInt:
		switch op {
		case token.SUB:
			return p.mkInt(p.ts.BvUn(OpBvNeg, v.t), v.k)
		case token.XOR:
			return p.mkInt(p.ts.BvUn(OpBvNot, v.t), v.k)
		}
	}
	panic(fmt.Sprintf("symUnop: unsupported %s on %T", op, x))
}

// symConv handles conversions whose operand is symbolic.
func (p *pathCtx) symConv(t_dst, t_src types.Type, x value) value {
	ut_dst := t_dst.Underlying()
	switch v := x.(type) {
	case symInt:
		if b, ok := ut_dst.(*types.Basic); ok {
			if b.Info()&types.IsInteger != 0 {
				w := kindWidth(b.Kind())
				return p.mkInt(p.ts.Resize(v.t, w, kindSigned(v.k)), b.Kind())
			}
			if b.Kind() == types.String {
				// string(rune): only ASCII range supported symbolically
				c := p.concretize(v.t, "conv-rune")
				return string(rune(signExt(c, v.t.sort)))
			}
			if b.Info()&types.IsFloat != 0 {
				c := p.concretize(v.t, "conv-float")
				if kindSigned(v.k) {
					return conv(p.interp, t_dst, types.Typ[types.Int64], signExt(c, v.t.sort))
				}
				return conv(p.interp, t_dst, types.Typ[types.Uint64], c)
			}
		}
	case symStr:
		switch d := ut_dst.(type) {
		case *types.Basic:
			if d.Kind() == types.String {
				return v
			}
		case *types.Slice:
			if eb, ok := d.Elem().Underlying().(*types.Basic); ok && eb.Kind() == types.Byte {
				n := int(p.concretize(v.n, "str2bytes-len"))
				bs := p.viewBytes(v)
				res := make([]value, n)
				for i := 0; i < n; i++ {
					res[i] = p.mkInt(bs[i], types.Uint8)
				}
				return res
			}
			if eb, ok := d.Elem().Underlying().(*types.Basic); ok && eb.Kind() == types.Rune {
				s := p.concretizeString(v)
				var res []value
				for _, r := range []rune(s) {
					res = append(res, r)
				}
				return res
			}
		}
	case []value:
		// []byte with symbolic elements -> string
		if d, ok := ut_dst.(*types.Basic); ok && d.Kind() == types.String {
			return p.bytesToStr(v)
		}
	}
	panic(fmt.Sprintf("symConv: unsupported conversion %s -> %s (%T)", t_src, t_dst, x))
}

func (p *pathCtx) bytesToStr(v []value) value {
	allConc := true
	for _, e := range v {
		if _, ok := e.(symInt); ok {
			allConc = false
			break
		}
	}
	if allConc {
		b := make([]byte, len(v))
		for i := range v {
			b[i] = v[i].(byte)
		}
		return string(b)
	}
	buf := &symBuf{id: p.newBufID(), name: "conv"}
	for _, e := range v {
		t, _ := p.intTerm(e)
		buf.b = append(buf.b, t)
	}
	return symStr{buf: buf, off: p.ts.BV(0, 64), n: p.ts.BV(uint64(len(v)), 64), max: len(v)}
}

func hasSymBytes(v []value) bool {
	for _, e := range v {
		if _, ok := e.(symInt); ok {
			return true
		}
	}
	return false
}

// symPtr is the address of element idx of a table of scalars, idx symbolic. Reading through it
// yields an ite chain over the elements; writing forks on the index.
type symPtr struct {
	base []value
	idx  *Term // 64-bit, proven in range
}

func (p *pathCtx) trySymPtr(x value, si symInt) (symPtr, bool) {
	var base []value
	switch b := x.(type) {
	case []value:
		base = b
	case *value:
		if b == nil {
			return symPtr{}, false
		}
		a, ok := (*b).(array)
		if !ok {
			return symPtr{}, false
		}
		base = []value(a)
	default:
		return symPtr{}, false
	}
	if len(base) == 0 || len(base) > 512 {
		return symPtr{}, false
	}
	for _, e := range base {
		switch e.(type) {
		case symInt, bool, symBool:
		default:
			if _, _, ok := intKindOf(e); !ok {
				return symPtr{}, false
			}
		}
	}
	idx := p.i64(si)
	inb := p.ts.Cmp(OpBvUlt, idx, p.ts.BV(uint64(len(base)), 64))
	if !p.branch(inb, "bounds") {
		panic(targetPanic{"runtime error: index out of range"})
	}
	return symPtr{base: base, idx: idx}, true
}

func (p *pathCtx) loadSymPtr(sp symPtr) value {
	ts := p.ts
	if isBoolVal(sp.base[0]) {
		r := p.boolTerm(sp.base[len(sp.base)-1])
		for k := len(sp.base) - 2; k >= 0; k-- {
			r = ts.Ite(ts.Eq(sp.idx, ts.BV(uint64(k), 64)), p.boolTerm(sp.base[k]), r)
		}
		return p.mkBool(r)
	}
	_, kind := p.intTerm(sp.base[len(sp.base)-1])
	// sparse tables (e.g. strings.asciiSpace): start from the most frequent concrete value and
	// only test the indices that differ from it
	counts := map[uint64]int{}
	allConc := true
	for _, e := range sp.base {
		if _, u, ok := intKindOf(e); ok {
			counts[u]++
		} else {
			allConc = false
		}
	}
	var def value = sp.base[len(sp.base)-1]
	if allConc {
		best, bestN := uint64(0), -1
		for u, n := range counts {
			if n > bestN {
				best, bestN = u, n
			}
		}
		def = concreteInt(kind, best)
	}
	r, _ := p.intTerm(def)
	for k := len(sp.base) - 1; k >= 0; k-- {
		t, _ := p.intTerm(sp.base[k])
		if t == r {
			continue
		}
		if allConc {
			if dt, _ := p.intTerm(def); dt == t {
				continue
			}
		}
		r = ts.Ite(ts.Eq(sp.idx, ts.BV(uint64(k), 64)), t, r)
	}
	return p.mkInt(r, kind)
}
