package main

// String theory: strings are views (buffer, off, n) over immutable vectors of byte terms.

import (
	"fmt"
	"go/token"
	"go/types"
	"math/bits"
)

func (p *pathCtx) newBufID() int {
	p.bufSeq++
	return p.bufSeq
}

func (p *pathCtx) constBuf(s string) *symBuf {
	if b, ok := p.constBufs[s]; ok {
		return b
	}
	b := &symBuf{id: p.newBufID(), name: "const"}
	for i := 0; i < len(s); i++ {
		b.b = append(b.b, p.ts.BV(uint64(s[i]), 8))
	}
	p.constBufs[s] = b
	return b
}

// strOf promotes a string value to its symbolic representation.
func (p *pathCtx) strOf(v value) symStr {
	switch x := v.(type) {
	case symStr:
		return x
	case string:
		return symStr{buf: p.constBuf(x), off: p.ts.BV(0, 64), n: p.ts.BV(uint64(len(x)), 64), max: len(x)}
	}
	panic(fmt.Sprintf("strOf: not a string: %T", v))
}

// mkStr demotes a fully concrete symStr to a Go string.
func (p *pathCtx) mkStr(s symStr) value {
	if s.off.IsConst() && s.n.IsConst() {
		off, n := int(s.off.val), int(s.n.val)
		if off+n <= len(s.buf.b) {
			b := make([]byte, n)
			for i := 0; i < n; i++ {
				t := s.buf.b[off+i]
				if !t.IsConst() {
					return s
				}
				b[i] = byte(t.val)
			}
			return string(b)
		}
	}
	return s
}

type viewKey struct {
	buf int
	off int
	max int
}

// viewBytes returns s.max byte terms: element i is the byte at index i of the string
// (unspecified beyond its length).
func (p *pathCtx) viewBytes(s symStr) []*Term {
	ts := p.ts
	zero := ts.BV(0, 8)
	if s.off.IsConst() {
		off := int(s.off.val)
		res := make([]*Term, s.max)
		for i := range res {
			if off+i < len(s.buf.b) {
				res[i] = s.buf.b[off+i]
			} else {
				res[i] = zero
			}
		}
		return res
	}
	k := viewKey{s.buf.id, s.off.id, s.max}
	if r, ok := p.viewCache[k]; ok {
		return r
	}
	capb := len(s.buf.b)
	cur := make([]*Term, capb)
	copy(cur, s.buf.b)
	nb := bits.Len(uint(capb))
	for st := 0; st < nb; st++ {
		bit := ts.Eq(ts.Extract(st, st, s.off), ts.BV(1, 1))
		nxt := make([]*Term, capb)
		sh := 1 << uint(st)
		for i := 0; i < capb; i++ {
			var hi *Term
			if i+sh < capb {
				hi = cur[i+sh]
			} else {
				hi = zero
			}
			nxt[i] = ts.Ite(bit, hi, cur[i])
		}
		cur = nxt
	}
	res := make([]*Term, s.max)
	for i := range res {
		if i < capb {
			res[i] = cur[i]
		} else {
			res[i] = zero
		}
	}
	p.viewCache[k] = res
	return res
}

func (p *pathCtx) strLen(s symStr) value { return p.mkInt(s.n, types.Int) }

// selectByte returns bytes[idx] as an ite chain (idx 64-bit term).
func (p *pathCtx) selectByte(bs []*Term, idx *Term) *Term {
	ts := p.ts
	if idx.IsConst() {
		if int(idx.val) < len(bs) {
			return bs[idx.val]
		}
		return ts.BV(0, 8)
	}
	r := ts.BV(0, 8)
	for i := len(bs) - 1; i >= 0; i-- {
		r = ts.Ite(ts.Eq(idx, ts.BV(uint64(i), 64)), bs[i], r)
	}
	return r
}

// strIndex implements s[i] with the bounds check as a decision.
func (p *pathCtx) strIndex(s symStr, idx value) value {
	ts := p.ts
	i := p.i64(idx)
	inb := ts.Cmp(OpBvUlt, i, s.n) // unsigned compare also rejects negatives
	if !p.branch(inb, "bounds") {
		panic(targetPanic{"runtime error: index out of range"})
	}
	return p.mkInt(p.selectByte(p.viewBytes(s), i), types.Uint8)
}

// strSlice implements s[lo:hi] with the bounds check as a decision.
func (p *pathCtx) strSlice(s symStr, lo, hi value) value {
	ts := p.ts
	l := ts.BV(0, 64)
	if lo != nil {
		l = p.i64(lo)
	}
	h := s.n
	if hi != nil {
		h = p.i64(hi)
	}
	ok := ts.And(ts.Cmp(OpBvUle, l, h), ts.Cmp(OpBvUle, h, s.n))
	if !p.branch(ok, "bounds") {
		panic(targetPanic{"runtime error: slice bounds out of range"})
	}
	max := s.max
	if h.IsConst() && int(h.val) < max {
		max = int(h.val)
	}
	if l.IsConst() {
		max -= int(l.val)
		if max < 0 {
			max = 0
		}
	}
	return p.mkStr(symStr{buf: s.buf, off: ts.BvBin(OpBvAdd, s.off, l), n: ts.BvBin(OpBvSub, h, l), max: max})
}

func (p *pathCtx) strEq(a, b symStr) *Term {
	ts := p.ts
	if a.buf == b.buf && a.off == b.off {
		return ts.Eq(a.n, b.n)
	}
	m := a.max
	if b.max < m {
		m = b.max
	}
	r := ts.Eq(a.n, b.n)
	if r.IsFalse() {
		return r
	}
	if a.n.IsConst() && int(a.n.val) < m {
		m = int(a.n.val)
	}
	if b.n.IsConst() && int(b.n.val) < m {
		m = int(b.n.val)
	}
	// lengths above m are impossible when equal
	r = ts.And(r, ts.Cmp(OpBvUle, a.n, ts.BV(uint64(m), 64)))
	A, B := p.viewBytes(a), p.viewBytes(b)
	for i := 0; i < m; i++ {
		in := ts.Cmp(OpBvUlt, ts.BV(uint64(i), 64), a.n)
		r = ts.And(r, ts.Implies(in, ts.Eq(A[i], B[i])))
		if r.IsFalse() {
			return r
		}
	}
	return r
}

func (p *pathCtx) strLess(a, b symStr) *Term {
	ts := p.ts
	m := a.max
	if b.max > m {
		m = b.max
	}
	A, B := p.viewBytes(a), p.viewBytes(b)
	get := func(x []*Term, i int) *Term {
		if i < len(x) {
			return x[i]
		}
		return ts.BV(0, 8)
	}
	less := ts.Cmp(OpBvUlt, a.n, b.n)
	for i := m - 1; i >= 0; i-- {
		ci := ts.BV(uint64(i), 64)
		bEnd := ts.Cmp(OpBvUle, b.n, ci)
		aEnd := ts.Cmp(OpBvUle, a.n, ci)
		lt := ts.Cmp(OpBvUlt, get(A, i), get(B, i))
		gt := ts.Cmp(OpBvUlt, get(B, i), get(A, i))
		less = ts.Ite(bEnd, ts.False, ts.Ite(aEnd, ts.True, ts.Ite(lt, ts.True, ts.Ite(gt, ts.False, less))))
	}
	return less
}

func (p *pathCtx) strConcat(a, b symStr) value {
	ts := p.ts
	if b.n.IsConst() && b.n.val == 0 {
		return p.mkStr(a)
	}
	if a.n.IsConst() && a.n.val == 0 {
		return p.mkStr(b)
	}
	if m, ok := p.mergeAdjacent(a, b); ok {
		return p.mkStr(m)
	}
	capn := a.max + b.max
	A, B := p.viewBytes(a), p.viewBytes(b)
	zero := ts.BV(0, 8)
	// shift B right by a.n
	cur := make([]*Term, capn)
	for i := range cur {
		if i < len(B) {
			cur[i] = B[i]
		} else {
			cur[i] = zero
		}
	}
	if a.n.IsConst() {
		sh := int(a.n.val)
		nxt := make([]*Term, capn)
		for i := range nxt {
			if i-sh >= 0 {
				nxt[i] = cur[i-sh]
			} else {
				nxt[i] = zero
			}
		}
		cur = nxt
	} else {
		nb := bits.Len(uint(a.max))
		for st := 0; st < nb; st++ {
			bit := ts.Eq(ts.Extract(st, st, a.n), ts.BV(1, 1))
			sh := 1 << uint(st)
			nxt := make([]*Term, capn)
			for i := range nxt {
				lo := zero
				if i-sh >= 0 {
					lo = cur[i-sh]
				}
				nxt[i] = ts.Ite(bit, lo, cur[i])
			}
			cur = nxt
		}
	}
	R := make([]*Term, capn)
	for i := range R {
		if i < len(A) {
			R[i] = ts.Ite(ts.Cmp(OpBvUlt, ts.BV(uint64(i), 64), a.n), A[i], cur[i])
		} else {
			R[i] = cur[i]
		}
	}
	buf := &symBuf{id: p.newBufID(), name: "concat", b: R}
	return p.mkStr(symStr{buf: buf, off: ts.BV(0, 64), n: ts.BvBin(OpBvAdd, a.n, b.n), max: capn})
}

func (p *pathCtx) strBinop(op token.Token, x, y value) value {
	a, b := p.strOf(x), p.strOf(y)
	ts := p.ts
	switch op {
	case token.ADD:
		return p.strConcat(a, b)
	case token.EQL:
		return p.mkBool(p.strEq(a, b))
	case token.NEQ:
		return p.mkBool(ts.Not(p.strEq(a, b)))
	case token.LSS:
		return p.mkBool(p.strLess(a, b))
	case token.GTR:
		return p.mkBool(p.strLess(b, a))
	case token.LEQ:
		return p.mkBool(ts.Not(p.strLess(b, a)))
	case token.GEQ:
		return p.mkBool(ts.Not(p.strLess(a, b)))
	}
	panic("strBinop: unsupported op " + op.String())
}

// concretizeString forks over the length and then over every byte; for short strings only.
func (p *pathCtx) concretizeString(s symStr) string {
	n := int(p.concretize(s.n, "cstr-len"))
	bs := p.viewBytes(s)
	out := make([]byte, n)
	for i := 0; i < n; i++ {
		out[i] = byte(p.concretize(bs[i], "cstr-byte"))
	}
	return string(out)
}

// strIndexOf returns the index of the first occurrence of the concrete string sep in s, or -1.
func (p *pathCtx) strIndexOf(s symStr, sep string) *Term {
	ts := p.ts
	bs := p.viewBytes(s)
	L := len(sep)
	if L == 0 {
		return ts.BV(0, 64)
	}
	// narrow chain, sign-extended (-1 = not found)
	w := Sort(bits.Len(uint(s.max)) + 2)
	r := ts.BV(^uint64(0), w)
	for i := s.max - L; i >= 0; i-- {
		m := ts.Cmp(OpBvUle, ts.BV(uint64(i+L), 64), s.n)
		for j := 0; j < L && !m.IsFalse(); j++ {
			m = ts.And(m, ts.Eq(bs[i+j], ts.BV(uint64(sep[j]), 8)))
		}
		r = ts.Ite(m, ts.BV(uint64(i), w), r)
	}
	return ts.Sext(r, int(64-w))
}

// strCountByte counts occurrences of byte c in s.
func (p *pathCtx) strCountByte(s symStr, c byte) *Term {
	ts := p.ts
	bs := p.viewBytes(s)
	w := Sort(bits.Len(uint(s.max)) + 1)
	sum := ts.BV(0, w)
	for i := 0; i < s.max; i++ {
		m := ts.And(ts.Cmp(OpBvUlt, ts.BV(uint64(i), 64), s.n), ts.Eq(bs[i], ts.BV(uint64(c), 8)))
		sum = ts.BvBin(OpBvAdd, sum, ts.Ite(m, ts.BV(1, w), ts.BV(0, w)))
	}
	return ts.Zext(sum, int(64-w))
}

func isConcreteStr(s symStr) (string, bool) {
	if !s.off.IsConst() || !s.n.IsConst() {
		return "", false
	}
	off, n := int(s.off.val), int(s.n.val)
	if off+n > len(s.buf.b) {
		return "", false
	}
	out := make([]byte, n)
	for i := 0; i < n; i++ {
		t := s.buf.b[off+i]
		if !t.IsConst() {
			return "", false
		}
		out[i] = byte(t.val)
	}
	return string(out), true
}

// mergeAdjacent recognises concatenations that merely re-assemble a window of one buffer:
// two adjacent views, or a view extended by literal bytes that the path condition pins down.
// Each case is established by an unsat answer of the solver, never assumed.
func (p *pathCtx) mergeAdjacent(a, b symStr) (symStr, bool) {
	ts := p.ts
	capb := func(buf *symBuf) *Term { return ts.BV(uint64(len(buf.b)), 64) }
	if a.buf == b.buf && len(a.buf.b) > 0 && a.buf.name != "const" {
		adj := ts.Eq(b.off, ts.BvBin(OpBvAdd, a.off, a.n))
		if adj.IsTrue() || (!adj.IsFalse() && p.check(ts.Not(adj), p.ex.cfg.BranchMs) == Unsat) {
			max := a.max + b.max
			if max > len(a.buf.b) {
				max = len(a.buf.b)
			}
			return symStr{buf: a.buf, off: a.off, n: ts.BvBin(OpBvAdd, a.n, b.n), max: max}, true
		}
		return symStr{}, false
	}
	if lit, ok := isConcreteStr(b); ok && a.buf.name != "const" && len(lit) > 0 && len(lit) <= 8 {
		end := ts.BvBin(OpBvAdd, a.off, a.n)
		cond := ts.Cmp(OpBvUle, ts.BvBin(OpBvAdd, end, ts.BV(uint64(len(lit)), 64)), capb(a.buf))
		tail := p.viewBytes(symStr{buf: a.buf, off: end, n: ts.BV(uint64(len(lit)), 64), max: len(lit)})
		for j := 0; j < len(lit); j++ {
			cond = ts.And(cond, ts.Eq(tail[j], ts.BV(uint64(lit[j]), 8)))
		}
		if cond.IsTrue() || (!cond.IsFalse() && p.check(ts.Not(cond), p.ex.cfg.BranchMs) == Unsat) {
			max := a.max + len(lit)
			if max > len(a.buf.b) {
				max = len(a.buf.b)
			}
			return symStr{buf: a.buf, off: a.off, n: ts.BvBin(OpBvAdd, a.n, ts.BV(uint64(len(lit)), 64)), max: max}, true
		}
		return symStr{}, false
	}
	if lit, ok := isConcreteStr(a); ok && b.buf.name != "const" && len(lit) > 0 && len(lit) <= 8 {
		if b.off.IsConst() && b.off.val < uint64(len(lit)) {
			return symStr{}, false
		}
		L := ts.BV(uint64(len(lit)), 64)
		start := ts.BvBin(OpBvSub, b.off, L)
		cond := ts.Cmp(OpBvUle, L, b.off)
		head := p.viewBytes(symStr{buf: b.buf, off: start, n: L, max: len(lit)})
		for j := 0; j < len(lit); j++ {
			cond = ts.And(cond, ts.Eq(head[j], ts.BV(uint64(lit[j]), 8)))
		}
		if cond.IsTrue() || (!cond.IsFalse() && p.check(ts.Not(cond), p.ex.cfg.BranchMs) == Unsat) {
			max := b.max + len(lit)
			if max > len(b.buf.b) {
				max = len(b.buf.b)
			}
			return symStr{buf: b.buf, off: start, n: ts.BvBin(OpBvAdd, b.n, L), max: max}, true
		}
	}
	return symStr{}, false
}

// strIndexOfSym is strings.Index with a symbolic needle.
func (p *pathCtx) strIndexOfSym(s, sep symStr) *Term {
	ts := p.ts
	S, P := p.viewBytes(s), p.viewBytes(sep)
	w := Sort(bits.Len(uint(s.max)) + 2)
	r := ts.BV(^uint64(0), w)
	for i := s.max; i >= 0; i-- {
		m := ts.Cmp(OpBvUle, ts.BvBin(OpBvAdd, ts.BV(uint64(i), 64), sep.n), s.n)
		for j := 0; j < sep.max && !m.IsFalse(); j++ {
			in := ts.Cmp(OpBvUlt, ts.BV(uint64(j), 64), sep.n)
			if i+j < len(S) {
				m = ts.And(m, ts.Implies(in, ts.Eq(S[i+j], P[j])))
			} else {
				m = ts.And(m, ts.Not(in))
			}
		}
		r = ts.Ite(m, ts.BV(uint64(i), w), r)
	}
	return ts.Sext(r, int(64-w))
}
