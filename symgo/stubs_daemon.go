package main

// Stubs that let the real cmd.RunNamedPipe run in the engine (C08): logger construction, the
// events output file (a write sink), machine id / host name, os.Stat for the pipe paths.

import (
	"go/types"
	"strings"
)

type sinkState struct {
	path   string
	writes []value
}

func (p *pathCtx) sinkFor(path string) *sinkState {
	if p.sinks == nil {
		p.sinks = map[string]*sinkState{}
	}
	s := p.sinks[path]
	if s == nil {
		s = &sinkState{path: path}
		p.sinks[path] = s
	}
	return s
}

func init() {
	st := exactStubs
	V := verifrtPath + "."
	zapLogger := func() value {
		var cell value = &opaque{kind: "zap"}
		return &cell
	}
	st["go.uber.org/zap.NewProductionConfig"] = func(fr *frame, args []value) value {
		return zero(fr.fn.Signature.Results().At(0).Type())
	}
	st["go.uber.org/zap.NewAtomicLevelAt"] = func(fr *frame, args []value) value {
		return zero(fr.fn.Signature.Results().At(0).Type())
	}
	st["(go.uber.org/zap.Config).Build"] = func(fr *frame, args []value) value {
		return tuple{zapLogger(), nilError()}
	}
	st["github.com/go-logr/zapr.NewLogger"] = func(fr *frame, args []value) value {
		return zero(fr.fn.Signature.Results().At(0).Type())
	}
	st["github.com/metal-toolbox/auditevent/helpers.OpenAuditLogFileUntilSuccessWithContext"] = func(fr *frame, args []value) value {
		path, _ := args[1].(string)
		var cell value = &opaque{kind: "file", data: map[string]value{"state": &fileState{path: path}, "sink": fr.i.p.sinkFor(path)}}
		return tuple{&cell, nilError()}
	}
	st["(*os.File).Write"] = func(fr *frame, args []value) value {
		pv, _ := args[0].(*value)
		if pv == nil {
			panic(targetPanic{"runtime error: invalid memory address or nil pointer dereference"})
		}
		o := (*pv).(*opaque)
		bs := args[1].([]value)
		if s, ok := o.data["sink"].(*sinkState); ok {
			s.writes = append(s.writes, bs)
			return tuple{len(bs), nilError()}
		}
		fr.i.p.abort("unsupported", "(*os.File).Write on a non-sink file")
		return nil
	}
	st["os.ReadFile"] = func(fr *frame, args []value) value {
		path, _ := args[0].(string)
		if path == "/etc/machine-id" {
			var bs []value
			for _, c := range []byte("0123456789abcdef0123456789abcdef\n") {
				bs = append(bs, c)
			}
			return tuple{bs, nilError()}
		}
		return tuple{[]value(nil), fr.i.mkError("open " + path + ": no such file or directory")}
	}
	st["os.Hostname"] = func(fr *frame, args []value) value { return tuple{"verif-host", nilError()} }
	st[V+"MkRegular"] = func(fr *frame, args []value) value {
		p := fr.i.p
		path := "/verif-fifo/" + args[0].(string)
		if p.fifos == nil {
			p.fifos = map[string]*fifoState{}
		}
		p.fifos[path] = &fifoState{path: path, isFifo: false}
		return path
	}
	st[V+"OutputPath"] = func(fr *frame, args []value) value { return "/verif-out/" + args[0].(string) }
	st[V+"OutputEventTypes"] = func(fr *frame, args []value) value {
		p := fr.i.p
		var out []value
		if s, ok := p.sinks[args[0].(string)]; ok {
			for _, w := range s.writes {
				for _, b := range w.([]value) {
					if o, ok := b.(*opaque); ok && o.kind == "json" {
						typ := "?"
						if ev, ok := o.data["$value"].(*value); ok && ev != nil {
							if stv, ok := (*ev).(structure); ok && len(stv) > 1 {
								if t, ok := stv[1].(string); ok {
									typ = t
								}
							}
						}
						out = append(out, typ)
					}
				}
			}
		}
		return out
	}
	// os.Stat for the model's paths: a *os.fileStat whose mode says FIFO or regular file
	st["os.Stat"] = func(fr *frame, args []value) value {
		p := fr.i.p
		path, _ := args[0].(string)
		f := p.fifoByPath(path)
		if f == nil {
			return tuple{iface{}, fr.i.mkError("stat " + path + ": no such file or directory")}
		}
		t := fr.i.ld.namedType("os", "fileStat")
		if t == nil {
			p.abort("unsupported", "os.fileStat not found")
		}
		sv := zero(t).(structure)
		stt := t.Underlying().(*types.Struct)
		for k := 0; k < stt.NumFields(); k++ {
			switch stt.Field(k).Name() {
			case "name":
				sv[k] = path[strings.LastIndex(path, "/")+1:]
			case "mode":
				if f.isFifo {
					sv[k] = uint32(1 << 25) // fs.ModeNamedPipe
				} else {
					sv[k] = uint32(0o644)
				}
			}
		}
		var cell value = sv
		return tuple{iface{t: types.NewPointer(t), v: &cell}, nilError()}
	}
}
