package main

// Stubs that let the real cmd.RunNamedPipe run in the engine (C08): logger construction, the
// events output file (a write sink), machine id / host name, os.Stat for the pipe paths.

import (
	"go/types"
	"strconv"
	"strings"
)

// The events output file: a sequence of records (one per Write call). A descriptor opened with
// O_APPEND always adds at the end; one opened without it writes at its private offset, counted
// in records: writing where a record already is damages it (the two differ in length, so what
// remains does not parse) - reported as a torn line.
type sinkState struct {
	path   string
	writes []value
}

type sinkHandle struct {
	sink   *sinkState
	append bool
	off    int
}

func (h *sinkHandle) write(bs []value) {
	s := h.sink
	if h.append || h.off >= len(s.writes) {
		s.writes = append(s.writes, bs)
		h.off = len(s.writes)
		return
	}
	s.writes[h.off] = []value{&opaque{kind: "torn"}}
	h.off++
}

func (p *pathCtx) sinkFor(path string) *sinkState {
	if p.sinks == nil {
		p.sinks = map[string]*sinkState{}
	}
	s := p.sinks[path]
	if s == nil {
		s = &sinkState{path: path}
		p.sinks[path] = s
	}
	return s
}

func init() {
	st := exactStubs
	V := verifrtPath + "."
	zapLogger := func() value {
		var cell value = &opaque{kind: "zap"}
		return &cell
	}
	st["go.uber.org/zap.NewProductionConfig"] = func(fr *frame, args []value) value {
		return zero(fr.fn.Signature.Results().At(0).Type())
	}
	st["go.uber.org/zap.NewAtomicLevelAt"] = func(fr *frame, args []value) value {
		return zero(fr.fn.Signature.Results().At(0).Type())
	}
	st["(go.uber.org/zap.Config).Build"] = func(fr *frame, args []value) value {
		return tuple{zapLogger(), nilError()}
	}
	st["github.com/go-logr/zapr.NewLogger"] = func(fr *frame, args []value) value {
		return zero(fr.fn.Signature.Results().At(0).Type())
	}
	st["github.com/metal-toolbox/auditevent/helpers.OpenAuditLogFileUntilSuccessWithContext"] = func(fr *frame, args []value) value {
		path, _ := args[1].(string)
		var cell value = &opaque{kind: "file", data: map[string]value{"state": &fileState{path: path}, "sink": &sinkHandle{sink: fr.i.p.sinkFor(path), append: true}}}
		return tuple{&cell, nilError()}
	}
	st["(*os.File).Write"] = func(fr *frame, args []value) value {
		pv, _ := args[0].(*value)
		if pv == nil {
			panic(targetPanic{"runtime error: invalid memory address or nil pointer dereference"})
		}
		o := (*pv).(*opaque)
		bs := args[1].([]value)
		if h, ok := o.data["sink"].(*sinkHandle); ok {
			// writes to the shared output are ordered by the scheduler, not by the program
			fr.i.p.yieldPoint()
			h.write(bs)
			return tuple{len(bs), nilError()}
		}
		fr.i.p.abort("unsupported", "(*os.File).Write on a non-sink file")
		return nil
	}
	st["os.ReadFile"] = func(fr *frame, args []value) value {
		path, _ := args[0].(string)
		if path == "/etc/machine-id" {
			var bs []value
			for _, c := range []byte("0123456789abcdef0123456789abcdef\n") {
				bs = append(bs, c)
			}
			return tuple{bs, nilError()}
		}
		return tuple{[]value(nil), fr.i.mkError("open " + path + ": no such file or directory")}
	}
	st["os.Hostname"] = func(fr *frame, args []value) value { return tuple{"verif-host", nilError()} }
	st[V+"MkRegular"] = func(fr *frame, args []value) value {
		p := fr.i.p
		path := "/verif-fifo/" + args[0].(string)
		if p.fifos == nil {
			p.fifos = map[string]*fifoState{}
		}
		p.fifos[path] = &fifoState{path: path, isFifo: false}
		return path
	}
	st[V+"OutputPath"] = func(fr *frame, args []value) value { return "/verif-out/" + args[0].(string) }
	st[V+"OutputEventTypes"] = func(fr *frame, args []value) value {
		p := fr.i.p
		var out []value
		if s, ok := p.sinks[args[0].(string)]; ok {
			for _, w := range s.writes {
				for _, b := range w.([]value) {
					if o, ok := b.(*opaque); ok && o.kind == "torn" {
						out = append(out, "<torn>")
						continue
					}
					if o, ok := b.(*opaque); ok && o.kind == "json" {
						typ := "?"
						if ev, ok := o.data["$value"].(*value); ok && ev != nil {
							if stv, ok := (*ev).(structure); ok && len(stv) > 1 {
								if t, ok := stv[1].(string); ok {
									typ = t
								}
							}
						}
						out = append(out, typ)
					}
				}
			}
		}
		return out
	}
	// os.Stat for the model's paths: a *os.fileStat whose mode says FIFO or regular file
	st["os.Stat"] = func(fr *frame, args []value) value {
		p := fr.i.p
		path, _ := args[0].(string)
		f := p.fifoByPath(path)
		if f == nil {
			return tuple{iface{}, fr.i.mkError("stat " + path + ": no such file or directory")}
		}
		t := fr.i.ld.namedType("os", "fileStat")
		if t == nil {
			p.abort("unsupported", "os.fileStat not found")
		}
		sv := zero(t).(structure)
		stt := t.Underlying().(*types.Struct)
		for k := 0; k < stt.NumFields(); k++ {
			switch stt.Field(k).Name() {
			case "name":
				sv[k] = path[strings.LastIndex(path, "/")+1:]
			case "mode":
				if f.isFifo {
					sv[k] = uint32(1 << 25) // fs.ModeNamedPipe
				} else {
					sv[k] = uint32(0o644)
				}
			}
		}
		var cell value = sv
		return tuple{iface{t: types.NewPointer(t), v: &cell}, nilError()}
	}
}

// ---- aucoalesce: a model of CoalesceMessages for concrete single-record events -----------------
// The real function normalises through tables built by reflection from embedded YAML, which the
// engine does not execute. The model reports what the correlator consumes: record type, timestamp,
// the record's ses= and pid= fields (4294967295 -> "unset") and a result derived from res=/success=.
// It is cross-checked against the real function whenever a witness of a harness that uses it is
// replayed natively.

func auditField(raw, key string) (string, bool) {
	for _, tok := range strings.Fields(raw) {
		if strings.HasPrefix(tok, key+"=") {
			v := strings.TrimPrefix(tok, key+"=")
			return strings.Trim(v, `"'`), true
		}
	}
	return "", false
}

func init() {
	st := exactStubs
	A := "github.com/elastic/go-libaudit/v2/aucoalesce."
	st[A+"ResolveIDs"] = func(fr *frame, args []value) value { return nil }
	st[A+"CoalesceMessages"] = func(fr *frame, args []value) value {
		p := fr.i.p
		msgs, _ := args[0].([]value)
		resT := fr.fn.Signature.Results().At(0).Type() // *Event
		if len(msgs) == 0 {
			return tuple{zero(resT), fr.i.mkError("aucoalesce: no messages")}
		}
		evT := resT.Underlying().(*types.Pointer).Elem()
		ev := zero(evT).(structure)
		evS := evT.Underlying().(*types.Struct)
		fieldIdx := func(s *types.Struct, name string) int {
			for k := 0; k < s.NumFields(); k++ {
				if s.Field(k).Name() == name {
					return k
				}
			}
			p.abort("unsupported", "aucoalesce model: no field "+name)
			return -1
		}
		m0p, _ := msgs[0].(*value)
		if m0p == nil {
			return tuple{zero(resT), fr.i.mkError("aucoalesce: nil message")}
		}
		m0 := (*m0p).(structure) // RecordType, Timestamp, Sequence, RawData, ...
		raw, ok := m0[3].(string)
		if !ok {
			p.abort("unsupported", "aucoalesce model needs concrete record text")
		}
		ev[fieldIdx(evS, "Timestamp")] = m0[1]
		ev[fieldIdx(evS, "Sequence")] = m0[2]
		ev[fieldIdx(evS, "Type")] = m0[0]
		ses, _ := auditField(raw, "ses")
		if ses == "4294967295" {
			ses = "unset"
		}
		ev[fieldIdx(evS, "Session")] = ses
		res := "fail"
		if v, ok := auditField(raw, "res"); ok && (v == "1" || v == "success") {
			res = "success"
		} else if v, ok := auditField(raw, "success"); ok && v == "yes" {
			res = "success"
		}
		ev[fieldIdx(evS, "Result")] = res
		pi := fieldIdx(evS, "Process")
		proc := ev[pi].(structure)
		procS := evS.Field(pi).Type().Underlying().(*types.Struct)
		pid, _ := auditField(raw, "pid")
		proc[fieldIdx(procS, "PID")] = pid
		// the arguments of an EXECVE record of the group (quoted a<i>= values, argc of them)
		for _, mv := range msgs[1:] {
			mp, _ := mv.(*value)
			if mp == nil {
				continue
			}
			m := (*mp).(structure)
			mraw, ok2 := m[3].(string)
			if _, sym := m[0].(*symInt); sym || !ok2 {
				p.abort("unsupported", "aucoalesce model needs concrete records")
			}
			if asInt64(m[0]) != 1309 { // auparse.AUDIT_EXECVE
				continue
			}
			argc, _ := auditField(mraw, "argc")
			n, _ := strconv.Atoi(argc)
			var argv []value
			for k := 0; k < n; k++ {
				a, ok := auditField(mraw, "a"+strconv.Itoa(k))
				if !ok {
					break
				}
				argv = append(argv, a)
			}
			proc[fieldIdx(procS, "Args")] = argv
		}
		var cell value = ev
		return tuple{&cell, nilError()}
	}
	V := verifrtPath + "."
	st[V+"OutputEvents"] = func(fr *frame, args []value) value {
		p := fr.i.p
		var out []value
		s, ok := p.sinks[args[0].(string)]
		if !ok {
			return out
		}
		for _, w := range s.writes {
			for _, b := range w.([]value) {
				o, ok := b.(*opaque)
				if ok && o.kind == "torn" {
					out = append(out, "<torn>")
					continue
				}
				if !ok || o.kind != "json" {
					continue
				}
				desc := "?"
				if evp, ok := o.data["$value"].(*value); ok && evp != nil {
					if ev, ok := (*evp).(structure); ok && len(ev) > 5 {
						typ, _ := ev[1].(string)
						aid := ""
						if md, ok := ev[0].(structure); ok {
							aid, _ = md[0].(string)
						}
						if typ == "UserLogin" {
							aid = "-" // a fresh uuid natively
						}
						who := ""
						if subj, ok := ev[5].(*amap); ok && subj != nil {
							if e := p.mapFind(subj, "loggedAs"); e != nil {
								who, _ = e.val.(string)
							}
						}
						desc = typ + "|" + aid + "|" + who
					}
				}
				out = append(out, desc)
			}
		}
		return out
	}
}
