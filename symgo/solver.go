package main

// Persistent SMT solver processes spoken to over SMT-LIB2 text.

import (
	"bufio"
	"fmt"
	"io"
	"os"
	"os/exec"
	"strconv"
	"strings"
	"sync/atomic"
	"time"
)

type Solver struct {
	name   string
	cmd    *exec.Cmd
	in     io.WriteCloser
	out    *bufio.Reader
	nq     int
	tsolve time.Duration
	dead   bool
	killed bool // the hard deadline of a query fired: the process was killed
	log    *os.File
}

var solverBin = "z3-new"
var checkSatCmd = "(check-sat)"

var totalSolverNanos int64
var totalQueries int64

// solverLogic is sent as (set-logic ...) when non-empty. QF_BV makes z3 answer push/pop queries with
// its incremental SAT-based solver (good for the large regex tables); the default core is much
// faster on the small formulas of the data-structure and scheduling harnesses.
var solverLogic = ""

func NewSolver(bin string) (*Solver, error) {
	var cmd *exec.Cmd
	switch bin {
	case "cvc5":
		cmd = exec.Command("cvc5", "--incremental", "--lang=smt2", "--produce-models")
	default:
		cmd = exec.Command(bin, "-in", "-smt2")
	}
	in, err := cmd.StdinPipe()
	if err != nil {
		return nil, err
	}
	out, err := cmd.StdoutPipe()
	if err != nil {
		return nil, err
	}
	cmd.Stderr = os.Stderr
	if err := cmd.Start(); err != nil {
		return nil, err
	}
	s := &Solver{name: bin, cmd: cmd, in: in, out: bufio.NewReaderSize(out, 1<<16)}
	if p := os.Getenv("SYMGO_SMTLOG"); p != "" {
		s.log, _ = os.Create(fmt.Sprintf("%s.%d.smt2", p, cmd.Process.Pid))
	}
	s.Send("(set-option :produce-models true)\n" + logicCmd())
	return s, nil
}

func (s *Solver) Send(text string) {
	if s.dead {
		return
	}
	if s.log != nil {
		s.log.WriteString(text)
	}
	if _, err := io.WriteString(s.in, text); err != nil {
		s.dead = true
	}
}

// roundTrip sends cmd followed by an echo marker and returns all output lines before the marker.
func (s *Solver) roundTrip(cmd string) ([]string, error) {
	s.Send(cmd)
	s.Send("(echo \"@@done\")\n")
	var lines []string
	for {
		line, err := s.out.ReadString('\n')
		if err != nil {
			s.dead = true
			return lines, fmt.Errorf("solver %s died: %v", s.name, err)
		}
		line = strings.TrimRight(line, "\r\n")
		if line == "@@done" || line == "\"@@done\"" {
			break
		}
		lines = append(lines, line)
	}
	return lines, nil
}

type SatResult int

const (
	Unsat SatResult = iota
	Sat
	Unknown
)

func (r SatResult) String() string { return [...]string{"unsat", "sat", "unknown"}[r] }

// CheckSat decides the current assertion stack. It first gives z3's incremental core a short
// budget (cheap for the many easy branch queries), then falls back to the qfbv tactic pipeline
// on the same stack. Any error line => Unknown.
func (s *Solver) CheckSat(timeoutMs int) (SatResult, string) {
	// With (set-logic QF_BV) and an open push level z3 answers through its incremental
	// SAT-based bit-vector solver, which keeps the bit-blasted path condition between queries.
	return s.checkOnce(checkSatCmd, timeoutMs)
}

var quickMs = 700

func (s *Solver) checkOnce(cmd string, timeoutMs int) (SatResult, string) {
	t0 := time.Now()
	pre := ""
	if s.name != "cvc5" {
		pre = fmt.Sprintf("(set-option :timeout %d)\n", timeoutMs)
	}
	// hard deadline: z3 4.8.12 does not always honour :timeout (a cross-check query ran for 38
	// minutes with a 60 s limit); a solver that overruns is killed and the answer is "unknown"
	if timeoutMs > 0 && s.cmd != nil && s.cmd.Process != nil {
		timer := time.AfterFunc(time.Duration(timeoutMs)*time.Millisecond*3/2+15*time.Second, func() {
			s.killed = true
			_ = s.cmd.Process.Kill()
		})
		defer timer.Stop()
	}
	lines, err := s.roundTrip(pre + cmd + "\n")
	d := time.Since(t0)
	s.tsolve += d
	s.nq++
	atomic.AddInt64(&totalSolverNanos, int64(d))
	atomic.AddInt64(&totalQueries, 1)
	if err != nil {
		if s.killed {
			return Unknown, "hard time-out: solver killed"
		}
		return Unknown, err.Error()
	}
	res := Unknown
	seen := false
	for _, l := range lines {
		if strings.Contains(l, "(error") {
			return Unknown, l
		}
		switch l {
		case "sat":
			res, seen = Sat, true
		case "unsat":
			res, seen = Unsat, true
		case "unknown":
			res, seen = Unknown, true
		}
	}
	if !seen {
		return Unknown, "no answer: " + strings.Join(lines, "|")
	}
	return res, ""
}

// GetValues returns values for the given variable names (bools as 0/1).
func (s *Solver) GetValues(names []string) (map[string]uint64, error) {
	res := make(map[string]uint64, len(names))
	for i := 0; i < len(names); i += 200 {
		j := i + 200
		if j > len(names) {
			j = len(names)
		}
		lines, err := s.roundTrip("(get-value (" + strings.Join(names[i:j], " ") + "))\n")
		if err != nil {
			return nil, err
		}
		text := strings.Join(lines, " ")
		if strings.Contains(text, "(error") {
			return nil, fmt.Errorf("get-value: %s", text)
		}
		parseValues(text, res)
	}
	return res, nil
}

func parseValues(text string, res map[string]uint64) {
	// ((name val) (name val) ...), val: #x.., #b.., true, false, (_ bvN w)
	toks := tokenize(text)
	for i := 0; i+1 < len(toks); i++ {
		if toks[i] == "(" && i+2 < len(toks) && toks[i+1] != "(" {
			name := toks[i+1]
			v := toks[i+2]
			switch {
			case v == "true":
				res[name] = 1
			case v == "false":
				res[name] = 0
			case strings.HasPrefix(v, "#x"):
				u, _ := strconv.ParseUint(v[2:], 16, 64)
				res[name] = u
			case strings.HasPrefix(v, "#b"):
				u, _ := strconv.ParseUint(v[2:], 2, 64)
				res[name] = u
			case v == "(" && i+4 < len(toks) && toks[i+3] == "_" && strings.HasPrefix(toks[i+4], "bv"):
				u, _ := strconv.ParseUint(toks[i+4][2:], 10, 64)
				res[name] = u
			}
		}
	}
}

func tokenize(s string) []string {
	var toks []string
	i := 0
	for i < len(s) {
		c := s[i]
		switch {
		case c == ' ' || c == '\t' || c == '\n':
			i++
		case c == '(' || c == ')':
			toks = append(toks, string(c))
			i++
		default:
			j := i
			for j < len(s) && s[j] != ' ' && s[j] != '(' && s[j] != ')' && s[j] != '\n' && s[j] != '\t' {
				j++
			}
			toks = append(toks, s[i:j])
			i = j
		}
	}
	return toks
}

func (s *Solver) Close() {
	if s.cmd != nil && s.cmd.Process != nil {
		s.in.Close()
		s.cmd.Process.Kill()
		s.cmd.Wait()
	}
	if s.log != nil {
		s.log.Close()
	}
}

// oneShot runs a standalone query text (full script without check-sat) in a fresh solver context
// of this process: (reset) + text + (check-sat).
func (s *Solver) OneShot(text string, timeoutMs int) (SatResult, string) {
	// the deadline covers sending the script as well: z3 4.8.12 can spend minutes digesting the
	// assertions while this side is blocked writing to its pipe
	if timeoutMs > 0 && s.cmd != nil && s.cmd.Process != nil {
		timer := time.AfterFunc(time.Duration(timeoutMs)*time.Millisecond*3/2+15*time.Second, func() {
			s.killed = true
			_ = s.cmd.Process.Kill()
		})
		defer timer.Stop()
	}
	s.Send("(reset)\n(set-option :produce-models true)\n" + logicCmd() + "(push 1)\n")
	s.Send(text)
	return s.checkOnce(checkSatCmd, timeoutMs)
}

func logicCmd() string {
	if solverLogic == "" {
		return ""
	}
	return "(set-logic " + solverLogic + ")\n"
}
