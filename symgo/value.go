// Copyright 2013 The Go Authors. All rights reserved.
// Use of this source code is governed by a BSD-style
// license that can be found in the LICENSE file (LICENSE.x-tools).
//
// Derived from golang.org/x/tools/go/ssa/interp (v0.29.0), modified for symbolic execution.

package main

// Values
//
// All interpreter values are "boxed" in the empty interface, value.
// The range of possible dynamic types within value are:
//
// - bool, symBool
// - numbers (all built-in int/float/complex types are distinguished), symInt
// - string, symStr
// - *amap (all maps; insertion-ordered association list)
// - *schan (engine-level channel)
// - []value --- slices
// - iface --- interfaces.
// - structure --- structs.  Fields are ordered and accessed by numeric indices.
// - array --- arrays.
// - *value --- pointers.  Careful: *value is a distinct type from *array etc.
// - *ssa.Function \
//   *ssa.Builtin   } --- functions.  A nil 'func' is always of type *ssa.Function.
//   *closure      /
// - tuple --- as returned by Return, Next, "value,ok" modes, etc.
// - iter --- iterators from 'range' over map or string.
// - bad --- a poison pill for locals that have gone out of scope.
// - opaque --- engine-level objects standing in for stubbed library types

import (
	"bytes"
	"fmt"
	"go/types"
	"io"
	"strings"

	"golang.org/x/tools/go/ssa"
)

type value interface{}

type tuple []value

type array []value

type iface struct {
	t types.Type // never an "untyped" type
	v value
}

type structure []value

// An iterator over a Go map or string.
type iter interface {
	// next returns a Tuple (key, value, ok).
	next() tuple
}

type closure struct {
	Fn  *ssa.Function
	Env []value
}

type bad struct{}

func sameType(x, y types.Type) bool {
	if x == nil {
		return y == nil
	}
	return y != nil && types.Identical(x, y)
}

// eqTerm returns the truth value of x == y as a term; concrete comparisons fold to constants.
func (p *pathCtx) eqTerm(x, y value) *Term {
	ts := p.ts
	switch x := x.(type) {
	case symInt, symBool, symStr:
		return p.eqSym(x, y)
	}
	switch y.(type) {
	case symInt, symBool, symStr:
		return p.eqSym(x, y)
	}
	switch x := x.(type) {
	case bool:
		return ts.Bool(x == y.(bool))
	case int:
		return ts.Bool(x == y.(int))
	case int8:
		return ts.Bool(x == y.(int8))
	case int16:
		return ts.Bool(x == y.(int16))
	case int32:
		return ts.Bool(x == y.(int32))
	case int64:
		return ts.Bool(x == y.(int64))
	case uint:
		return ts.Bool(x == y.(uint))
	case uint8:
		return ts.Bool(x == y.(uint8))
	case uint16:
		return ts.Bool(x == y.(uint16))
	case uint32:
		return ts.Bool(x == y.(uint32))
	case uint64:
		return ts.Bool(x == y.(uint64))
	case uintptr:
		return ts.Bool(x == y.(uintptr))
	case float32:
		return ts.Bool(x == y.(float32))
	case float64:
		return ts.Bool(x == y.(float64))
	case complex64:
		return ts.Bool(x == y.(complex64))
	case complex128:
		return ts.Bool(x == y.(complex128))
	case string:
		return ts.Bool(x == y.(string))
	case *value:
		return ts.Bool(x == y.(*value))
	case *schan:
		return ts.Bool(x == y.(*schan))
	case *opaque:
		yo, _ := y.(*opaque)
		return ts.Bool(x == yo)
	case structure:
		ys := y.(structure)
		r := ts.True
		for i := range x {
			r = ts.And(r, p.eqTerm(x[i], ys[i]))
			if r.IsFalse() {
				return r
			}
		}
		return r
	case array:
		ya := y.(array)
		r := ts.True
		for i := range x {
			r = ts.And(r, p.eqTerm(x[i], ya[i]))
			if r.IsFalse() {
				return r
			}
		}
		return r
	case iface:
		yi := y.(iface)
		if !sameType(x.t, yi.t) {
			return ts.False
		}
		if x.t == nil {
			return ts.True
		}
		return p.eqTerm(x.v, yi.v)
	case *amap:
		ym, _ := y.(*amap)
		return ts.Bool((x != nil) == (ym != nil) && (x == nil || x == ym))
	case []value:
		yv, _ := y.([]value)
		return ts.Bool((x != nil) == (yv != nil))
	case *ssa.Function:
		switch y := y.(type) {
		case *ssa.Function:
			return ts.Bool(x == y)
		case *closure:
			return ts.Bool(false)
		}
	case *closure:
		switch y := y.(type) {
		case *ssa.Function:
			return ts.Bool(false)
		case *closure:
			return ts.Bool(x == y)
		}
	case nil:
		return ts.Bool(y == nil)
	}
	panic(fmt.Sprintf("eqTerm: comparing uncomparable %T and %T", x, y))
}

func (p *pathCtx) eqSym(x, y value) *Term {
	switch x.(type) {
	case symStr, string:
		if _, ok := y.(symStr); ok || isStringVal(y) {
			return p.strEq(p.strOf(x), p.strOf(y))
		}
	case symBool, bool:
		return p.ts.Eq(p.boolTerm(x), p.boolTerm(y))
	}
	a, _ := p.intTerm(x)
	b, _ := p.intTerm(y)
	return p.ts.Eq(a, b)
}

func isStringVal(v value) bool {
	switch v.(type) {
	case string, symStr:
		return true
	}
	return false
}

// load copies the value of type T stored at addr.
func load(T types.Type, addr *value) value {
	return loadP(nil, T, addr)
}

func loadP(p *pathCtx, T types.Type, addr *value) value {
	switch T := T.Underlying().(type) {
	case *types.Struct:
		v, ok := (*addr).(structure)
		if !ok {
			return *addr // opaque stand-in
		}
		a := make(structure, len(v))
		for i := range a {
			a[i] = loadP(p, T.Field(i).Type(), &v[i])
		}
		return a
	case *types.Array:
		v := (*addr).(array)
		a := make(array, len(v))
		for i := range a {
			a[i] = loadP(p, T.Elem(), &v[i])
		}
		return a
	default:
		if p != nil {
			p.raceAccess(addr, false)
		}
		return *addr
	}
}

// store stores value v of type T into *addr.
func store(T types.Type, addr *value, v value) {
	storeP(nil, T, addr, v)
}

func storeP(p *pathCtx, T types.Type, addr *value, v value) {
	switch T := T.Underlying().(type) {
	case *types.Struct:
		lhs, ok := (*addr).(structure)
		rhs, ok2 := v.(structure)
		if !ok || !ok2 {
			*addr = v
			return
		}
		for i := range lhs {
			storeP(p, T.Field(i).Type(), &lhs[i], rhs[i])
		}
	case *types.Array:
		lhs := (*addr).(array)
		rhs := v.(array)
		for i := range lhs {
			storeP(p, T.Elem(), &lhs[i], rhs[i])
		}
	default:
		if p != nil {
			p.raceAccess(addr, true)
		}
		*addr = v
	}
}

// Prints in the style of built-in println.
func writeValue(buf *bytes.Buffer, v value) {
	switch v := v.(type) {
	case nil, bool, int, int8, int16, int32, int64, uint, uint8, uint16, uint32, uint64, uintptr, float32, float64, complex64, complex128, string:
		fmt.Fprintf(buf, "%v", v)
	case symInt:
		fmt.Fprintf(buf, "<symint t%d>", v.t.id)
	case symBool:
		fmt.Fprintf(buf, "<symbool t%d>", v.t.id)
	case symStr:
		fmt.Fprintf(buf, "<symstr buf%d max%d>", v.buf.id, v.max)
	case *amap:
		buf.WriteString("map[")
		if v != nil {
			for i, e := range v.entries {
				if i > 0 {
					buf.WriteString(" ")
				}
				writeValue(buf, e.key)
				buf.WriteString(":")
				writeValue(buf, e.val)
			}
		}
		buf.WriteString("]")
	case *schan:
		fmt.Fprintf(buf, "%p", v)
	case *value:
		if v == nil {
			buf.WriteString("<nil>")
		} else {
			fmt.Fprintf(buf, "%p", v)
		}
	case iface:
		fmt.Fprintf(buf, "(%s, ", v.t)
		writeValue(buf, v.v)
		buf.WriteString(")")
	case structure:
		buf.WriteString("{")
		for i, e := range v {
			if i > 0 {
				buf.WriteString(" ")
			}
			writeValue(buf, e)
		}
		buf.WriteString("}")
	case array:
		buf.WriteString("[")
		for i, e := range v {
			if i > 0 {
				buf.WriteString(" ")
			}
			writeValue(buf, e)
		}
		buf.WriteString("]")
	case []value:
		buf.WriteString("[")
		for i, e := range v {
			if i > 0 {
				buf.WriteString(" ")
			}
			writeValue(buf, e)
		}
		buf.WriteString("]")
	case *ssa.Function, *ssa.Builtin, *closure:
		fmt.Fprintf(buf, "%p", v) // (an address)
	case tuple:
		buf.WriteString("(")
		for i, e := range v {
			if i > 0 {
				buf.WriteString(", ")
			}
			writeValue(buf, e)
		}
		buf.WriteString(")")
	default:
		fmt.Fprintf(buf, "<%T>", v)
	}
}

// Implements printing of Go values in the style of built-in println.
func toString(v value) string {
	var b bytes.Buffer
	writeValue(&b, v)
	return b.String()
}

// ------------------------------------------------------------------------
// Iterators

type stringIter struct {
	*strings.Reader
	i int
}

func (it *stringIter) next() tuple {
	okv := make(tuple, 3)
	ch, n, err := it.ReadRune()
	ok := err != io.EOF
	okv[0] = ok
	if ok {
		okv[1] = it.i
		okv[2] = ch
	}
	it.i += n
	return okv
}

// ------------------------------------------------------------------------
// Maps: insertion-ordered association lists whose keys may be symbolic.

type mapEntry struct {
	key, val value
	dead     bool
}

type amap struct {
	entries []*mapEntry
}

func (m *amap) length() int {
	if m == nil {
		return 0
	}
	return len(m.entries)
}

// find returns the entry whose key equals k, deciding symbolic key equalities.
func (p *pathCtx) mapFind(m *amap, k value) *mapEntry {
	if m == nil {
		return nil
	}
	p.raceAccess(m, false)
	// first pass: syntactically certain hit
	for _, e := range m.entries {
		if p.eqTerm(k, e.key).IsTrue() {
			return e
		}
	}
	for _, e := range m.entries {
		t := p.eqTerm(k, e.key)
		if t.IsFalse() {
			continue
		}
		if p.branch(t, "mapkey") {
			return e
		}
	}
	return nil
}

func (p *pathCtx) mapInsert(m *amap, k, v value) {
	if m == nil {
		panic(targetPanic{"assignment to entry in nil map"})
	}
	p.raceAccess(m, true)
	if e := p.mapFind(m, k); e != nil {
		e.val = v
		return
	}
	m.entries = append(m.entries, &mapEntry{key: k, val: v})
}

func (p *pathCtx) mapDelete(m *amap, k value) {
	if m == nil {
		return
	}
	p.raceAccess(m, true)
	e := p.mapFind(m, k)
	if e == nil {
		return
	}
	e.dead = true
	for i, x := range m.entries {
		if x == e {
			m.entries = append(m.entries[:i:i], m.entries[i+1:]...)
			return
		}
	}
}

type amapIter struct {
	order []*mapEntry
	i     int
}

func (it *amapIter) next() tuple {
	for it.i < len(it.order) {
		e := it.order[it.i]
		it.i++
		if e.dead {
			continue
		}
		return tuple{true, e.key, e.val}
	}
	return tuple{false, nil, nil}
}

func (p *pathCtx) mapRange(m *amap) iter {
	if m == nil {
		return &amapIter{}
	}
	p.raceAccess(m, false)
	order := append([]*mapEntry{}, m.entries...)
	if p.ex.cfg.SymMapOrder && len(order) > 1 {
		// Go leaves iteration order unspecified: make it a decision.
		rest := order
		var perm []*mapEntry
		for len(rest) > 1 {
			k := p.choose(len(rest), "maporder")
			perm = append(perm, rest[k])
			rest = append(append([]*mapEntry{}, rest[:k]...), rest[k+1:]...)
		}
		perm = append(perm, rest[0])
		order = perm
	}
	return &amapIter{order: order}
}

// opaque is an engine-level object standing in for a value of a stubbed library type.
type opaque struct {
	kind string
	data map[string]value
	str  string
	list []value
}
