package main

// FIFO model behind os.OpenFile / (*os.File).Read / Close / Name, driven by the harness through
// verifrt.MkFifo / FifoOpenWriter / (*FifoWriter).Write / Close.

import (
	"fmt"
	"go/types"
	"os"
	"strings"
)

type fifoState struct {
	path        string
	writers     int // writers that currently have the fifo open
	writerOpens int // writer opens so far (a blocked reader open completes when one happens)
	chunks      [][]value
	isFifo      bool
	readers     int // readers that have the fifo open or are blocked opening it
}

type fileState struct {
	fifo     *fifoState
	closed   bool
	path     string
	blocking bool // (*os.File).Fd was called: the descriptor is in blocking mode, Close no longer interrupts a Read in progress
}

type fifoWriterState struct{ closed bool }

func (p *pathCtx) fifoByPath(path string) *fifoState {
	if p.fifos == nil {
		p.fifos = map[string]*fifoState{}
	}
	return p.fifos[path]
}

// waitUntil blocks the current thread until cond holds (re-evaluated by the scheduler).
func (p *pathCtx) waitUntil(reason string, cond func() bool) {
	p.yieldPoint()
	for !cond() {
		cur := p.cur
		cur.cond = cond
		p.blockCurrent(reason)
		cur.cond = nil
	}
}

func (i *interpreter) globalValue(pkg, name string) value {
	sp := i.prog.ImportedPackage(pkg)
	if sp == nil {
		panic(pathAbort{"unsupported", "package " + pkg + " not loaded"})
	}
	g := sp.Var(name)
	if r, ok := i.globals[g]; ok {
		return *r
	}
	cell := zero(mustDeref(g.Type()))
	i.globals[g] = &cell
	return cell
}

func init() {
	st := exactStubs
	V := verifrtPath + "."
	st[V+"MkFifo"] = func(fr *frame, args []value) value {
		p := fr.i.p
		path := "/verif-fifo/" + args[0].(string)
		if p.fifos == nil {
			p.fifos = map[string]*fifoState{}
		}
		p.fifos[path] = &fifoState{path: path, isFifo: true}
		return path
	}
	st[V+"FifoOpenWriter"] = func(fr *frame, args []value) value {
		p := fr.i.p
		f := p.fifoByPath(args[0].(string))
		if f == nil {
			p.abort("unsupported", "FifoOpenWriter: unknown fifo")
		}
		// opening for writing blocks until a reader has the fifo open (or is opening it)
		p.waitUntil("fifo-open-writer", func() bool { return f.readers > 0 })
		f.writers++
		f.writerOpens++
		var ws value = &opaque{kind: "fifowriter", data: map[string]value{"state": &fifoWriterState{}}}
		var cell value = structure{args[0], &ws}
		return &cell
	}
	st["(*"+V+"FifoWriter).Write"] = func(fr *frame, args []value) value {
		p := fr.i.p
		w := (*args[0].(*value)).(structure)
		f := p.fifoByPath(w[0].(string))
		p.yieldPoint()
		var bs []value
		switch d := args[1].(type) {
		case string:
			for k := 0; k < len(d); k++ {
				bs = append(bs, d[k])
			}
		case symStr:
			bs = conv(fr.i, types.NewSlice(types.Typ[types.Byte]), types.Typ[types.String], d).([]value)
		}
		if len(bs) > 0 {
			f.chunks = append(f.chunks, bs)
		}
		return nil
	}
	st["(*"+V+"FifoWriter).Close"] = func(fr *frame, args []value) value {
		p := fr.i.p
		w := (*args[0].(*value)).(structure)
		f := p.fifoByPath(w[0].(string))
		p.yieldPoint()
		closed := false
		if wp, ok := w[1].(*value); ok && wp != nil {
			ws := (*wp).(*opaque).data["state"].(*fifoWriterState)
			closed = ws.closed
			ws.closed = true
		}
		if !closed {
			f.writers--
		}
		return nil
	}
	st[V+"KeepOpen"] = func(fr *frame, args []value) value { return nil }
	st[V+"Yield"] = func(fr *frame, args []value) value { fr.i.p.yieldPoint(); return nil }
	st[V+"Quiesce"] = func(fr *frame, args []value) value {
		p := fr.i.p
		me := p.cur
		p.waitUntil("quiesce", func() bool {
			for _, t := range p.threads {
				if t != me && t.state == tRunnable {
					return false
				}
				if t != me && t.state == tBlocked && t.cond != nil && t.reason != "quiesce" && t.cond() {
					return false
				}
			}
			return true
		})
		return nil
	}

	st["os.OpenFile"] = func(fr *frame, args []value) value {
		p := fr.i.p
		path, ok := args[0].(string)
		if !ok {
			p.abort("unsupported", "os.OpenFile with a symbolic path")
		}
		f := p.fifoByPath(path)
		if f == nil {
			if strings.HasPrefix(path, "/verif-out/") {
				// another descriptor of the events output (a regular file that exists)
				flag, _ := args[1].(int)
				var cell value = &opaque{kind: "file", data: map[string]value{"state": &fileState{path: path},
					"sink": &sinkHandle{sink: p.sinkFor(path), append: flag&os.O_APPEND != 0}}}
				return tuple{&cell, nilError()}
			}
			return tuple{(*value)(nil), fr.i.mkError("open " + path + ": no such file or directory")}
		}
		// opening for reading blocks until a writer has the fifo open
		f.readers++
		gen := f.writerOpens
		p.waitUntil("open-fifo", func() bool { return f.writers > 0 || f.writerOpens > gen })
		var cell value = &opaque{kind: "file", data: map[string]value{"state": &fileState{fifo: f, path: path}}}
		return tuple{&cell, nilError()}
	}
	fileOf := func(p *pathCtx, v value) *fileState {
		pv, _ := v.(*value)
		if pv == nil {
			panic(targetPanic{"runtime error: invalid memory address or nil pointer dereference"})
		}
		return (*pv).(*opaque).data["state"].(*fileState)
	}
	st["(*os.File).Fd"] = func(fr *frame, args []value) value {
		fileOf(fr.i.p, args[0]).blocking = true
		return uintptr(3)
	}
	st["(*os.File).Name"] = func(fr *frame, args []value) value { return fileOf(fr.i.p, args[0]).path }
	st["(*os.File).Close"] = func(fr *frame, args []value) value {
		p := fr.i.p
		fs := fileOf(p, args[0])
		p.yieldPoint()
		if fs.closed {
			return fr.i.mkError("close: file already closed")
		}
		fs.closed = true
		if fs.fifo != nil {
			fs.fifo.readers--
		}
		return nilError()
	}
	st["(*os.File).Read"] = func(fr *frame, args []value) value {
		p := fr.i.p
		fs := fileOf(p, args[0])
		buf := args[1].([]value)
		f := fs.fifo
		if fs.closed {
			return tuple{0, fr.i.mkError("read " + fs.path + ": file already closed")}
		}
		p.waitUntil("read-fifo", func() bool { return (fs.closed && !fs.blocking) || len(f.chunks) > 0 || f.writers == 0 })
		if fs.closed && !fs.blocking {
			return tuple{0, fr.i.mkError("read " + fs.path + ": file already closed")}
		}
		if len(f.chunks) == 0 {
			return tuple{0, fr.i.globalValue("io", "EOF")}
		}
		if len(buf) == 0 {
			return tuple{0, nilError()}
		}
		c := f.chunks[0]
		n := copy(buf, c)
		if schedTrace {
			fmt.Fprintf(os.Stderr, "FIFO read %s: %d bytes by %s\n", fs.path, n, p.cur.name)
		}
		if n == len(c) {
			f.chunks = f.chunks[1:]
		} else {
			f.chunks[0] = c[n:]
		}
		return tuple{n, nilError()}
	}
}
