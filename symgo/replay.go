package main

// Native replay of counterexamples: the same harness function is compiled with the native
// implementation of verifrt and run as an ordinary Go test against the real build of /repo.

import (
	"context"
	"regexp"
	"encoding/json"
	"flag"
	"fmt"
	"os"
	"os/exec"
	"path/filepath"
	"strings"
	"time"
)

func pkgRel(pkg string) string {
	return strings.TrimPrefix(strings.TrimPrefix(pkg, repoModule), "/")
}

func pkgNameOf(ld *Loaded, pkg string) string {
	if ld != nil {
		for _, sp := range ld.prog.AllPackages() {
			if sp.Pkg.Path() == pkg {
				return sp.Pkg.Name()
			}
		}
	}
	return filepath.Base(pkg)
}

// schedDependent reports whether the counterexample needs a particular interleaving.
func schedDependent(v *Violation) bool {
	for _, d := range v.Decisions {
		if d.Kind == "ch:sched" && d.Val != 0 {
			return true
		}
	}
	return false
}

var lockStmt = regexp.MustCompile(`(?m)^(\s*)([A-Za-z_][A-Za-z0-9_.]*)\.Lock\(\)\s*$`)

// instrumentLocks returns overlay entries that put a randomised yield before every mutex
// acquisition of the package directories given (native schedules are steered by perturbation).
func instrumentLocks(work string, dirs []string) map[string]string {
	out := map[string]string{}
	for _, dir := range dirs {
		ents, err := os.ReadDir(filepath.Join(repoDir, dir))
		if err != nil {
			continue
		}
		pkgName := ""
		touched := false
		for _, e := range ents {
			n := e.Name()
			if e.IsDir() || !strings.HasSuffix(n, ".go") || strings.HasSuffix(n, "_test.go") {
				continue
			}
			src, err := os.ReadFile(filepath.Join(repoDir, dir, n))
			if err != nil {
				continue
			}
			if m := regexp.MustCompile(`(?m)^package\s+(\w+)`).FindSubmatch(src); m != nil {
				pkgName = string(m[1])
			}
			if !lockStmt.Match(src) {
				continue
			}
			ns := lockStmt.ReplaceAll(src, []byte("${1}verifSchedPoint()\n${1}${2}.Lock()"))
			dst := filepath.Join(work, strings.ReplaceAll(dir, "/", "_")+"_"+n)
			os.WriteFile(dst, ns, 0o644)
			out[filepath.Join(repoDir, dir, n)] = dst
			touched = true
		}
		if touched && pkgName != "" {
			helper := "package " + pkgName + "\n\nimport (\n\t\"math/rand\"\n\t\"runtime\"\n\t\"time\"\n)\n\nfunc verifSchedPoint() {\n\tswitch rand.Intn(4) {\n\tcase 0:\n\t\truntime.Gosched()\n\tcase 1:\n\t\ttime.Sleep(time.Duration(rand.Intn(50)) * time.Microsecond)\n\t}\n}\n"
			dst := filepath.Join(work, strings.ReplaceAll(dir, "/", "_")+"_zz_verif_sched.go")
			os.WriteFile(dst, []byte(helper), 0o644)
			out[filepath.Join(repoDir, dir, "zz_verif_sched.go")] = dst
		}
	}
	return out
}

func replayNative(path string, v *Violation, ld *Loaded) (bool, string) {
	work := filepath.Join(verifDir, ".work", fmt.Sprintf("replay-%d-%d", os.Getpid(), time.Now().UnixNano()))
	os.MkdirAll(work, 0o755)
	defer os.RemoveAll(work)
	rel := pkgRel(v.Pkg)
	name := pkgNameOf(ld, v.Pkg)
	test := fmt.Sprintf(`//go:build verif

package %s

import (
	"fmt"
	"testing"
	"time"

	verifrt "%s"
)

func TestVerifReplay(t *testing.T) {
	done := make(chan string, 1)
	go func() {
		defer func() {
			if r := recover(); r != nil {
				if _, ok := r.(verifrt.ReplayEnd); ok {
					done <- ""
					return
				}
				done <- fmt.Sprintf("panic: %%v", r)
				return
			}
			done <- ""
		}()
		%s()
	}()
	var pan string
	hung := false
	select {
	case pan = <-done:
	case <-time.After(4 * time.Second):
		hung = true
	}
	// schedule-dependent counterexamples: the data is replayed exactly, the interleaving is searched
	// for by repeating the run with randomised yields at every lock acquisition
	deadline := time.Now().Add(%d * time.Second)
	iters := 1
	for !hung && pan == "" && len(verifrt.Failures) == 0 && time.Now().Before(deadline) {
		verifrt.Reset()
		iters++
		func() {
			defer func() {
				if r := recover(); r != nil {
					if _, ok := r.(verifrt.ReplayEnd); !ok {
						pan = fmt.Sprintf("panic: %%v", r)
					}
				}
			}()
			%s()
		}()
	}
	fmt.Printf("VERIF-REPLAY failures=%%q invalid=%%q panic=%%q hung=%%v iterations=%%d\n", verifrt.Failures, verifrt.Invalid, pan, hung, iters)
}
`, name, verifrtPath, v.Harness, stressSeconds(v), v.Harness)
	testPath := filepath.Join(work, "zz_verif_replay_test.go")
	os.WriteFile(testPath, []byte(test), 0o644)
	repl := map[string]string{}
	hdir := filepath.Join(verifDir, "harness")
	filepath.Walk(hdir, func(p string, info os.FileInfo, err error) error {
		if err == nil && !info.IsDir() && strings.HasSuffix(p, ".go") {
			r, _ := filepath.Rel(hdir, p)
			repl[filepath.Join(repoDir, r)] = p
		}
		return nil
	})
	repl[filepath.Join(repoDir, rel, "zz_verif_replay_test.go")] = testPath
	if schedDependent(v) {
		for k, p := range instrumentLocks(work, []string{rel, "internal/common"}) {
			repl[k] = p
		}
	}
	ovPath := filepath.Join(work, "overlay.json")
	data, _ := json.Marshal(map[string]any{"Replace": repl})
	os.WriteFile(ovPath, data, 0o644)

	ctx, cancel := context.WithTimeout(context.Background(), 300*time.Second)
	defer cancel()
	cmd := exec.CommandContext(ctx, "go", "test", "-tags", "verif", "-vet=off", "-count=1", "-v", "-run", "^TestVerifReplay$", "-overlay", ovPath, "./"+rel)
	cmd.Dir = repoDir
	cmd.Env = append(os.Environ(), "GOFLAGS=-mod=mod", "GOPROXY=off", "GOSUMDB=off", "GOTOOLCHAIN=local", "VERIF_REPLAY="+path)
	outb, _ := cmd.CombinedOutput()
	out := string(outb)
	line := ""
	for _, l := range strings.Split(out, "\n") {
		if strings.HasPrefix(l, "VERIF-REPLAY ") {
			line = l
		}
	}
	if line == "" {
		return false, "no replay line; output: " + tail(out, 600)
	}
	if !strings.Contains(line, "invalid=[]") {
		return false, line
	}
	switch v.Site {
	case "nopanic":
		return !strings.Contains(line, `panic=""`), line
	case "nodeadlock":
		return strings.Contains(line, "hung=true"), line
	}
	return strings.Contains(line, `"`+v.Site+`"`), line
}

func stressSeconds(v *Violation) int {
	if schedDependent(v) && v.Site != "nodeadlock" && v.Site != "nopanic" {
		return 40
	}
	return 0
}

func tail(s string, n int) string {
	if len(s) > n {
		return s[len(s)-n:]
	}
	return s
}

func cmdReplay(args []string) int {
	fs := flag.NewFlagSet("replay", flag.ExitOnError)
	file := fs.String("file", "", "replay file")
	fs.Parse(args)
	data, err := os.ReadFile(*file)
	if err != nil {
		fmt.Fprintln(os.Stderr, err)
		return 2
	}
	var v Violation
	if err := json.Unmarshal(data, &v); err != nil {
		fmt.Fprintln(os.Stderr, err)
		return 2
	}
	abs, _ := filepath.Abs(*file)
	ok, out := replayNative(abs, &v, nil)
	fmt.Println(out)
	if ok {
		fmt.Printf("REPRODUCED property=%s site=%s %s\n", v.Property, v.Site, describeNondets(v.Nondets))
		return 1
	}
	fmt.Println("NOT REPRODUCED")
	return 0
}
