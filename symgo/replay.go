package main

// Native replay of counterexamples: the same harness function is compiled with the native
// implementation of verifrt and run as an ordinary Go test against the real build of /repo.

import (
	"context"
	"regexp"
	"encoding/json"
	"flag"
	"fmt"
	"os"
	"os/exec"
	"path/filepath"
	"strings"
	"time"
)

func pkgRel(pkg string) string {
	return strings.TrimPrefix(strings.TrimPrefix(pkg, repoModule), "/")
}

func pkgNameOf(ld *Loaded, pkg string) string {
	if ld != nil {
		for _, sp := range ld.prog.AllPackages() {
			if sp.Pkg.Path() == pkg {
				return sp.Pkg.Name()
			}
		}
	}
	return filepath.Base(pkg)
}

// schedDependent reports whether the counterexample needs a particular interleaving.
func schedDependent(v *Violation) bool {
	for _, d := range v.Decisions {
		if d.Kind == "ch:sched" && d.Val != 0 {
			return true
		}
	}
	return false
}

var lockStmt = regexp.MustCompile(`(?m)^(\s*)([A-Za-z_][A-Za-z0-9_.]*)\.Lock\(\)\s*$`)

// instrumentLocks returns overlay entries that put a randomised yield before every mutex
// acquisition of the package directories given (native schedules are steered by perturbation).
func instrumentLocks(work string, dirs []string) map[string]string {
	out := map[string]string{}
	for _, dir := range dirs {
		ents, err := os.ReadDir(filepath.Join(repoDir, dir))
		if err != nil {
			continue
		}
		pkgName := ""
		touched := false
		for _, e := range ents {
			n := e.Name()
			if e.IsDir() || !strings.HasSuffix(n, ".go") || strings.HasSuffix(n, "_test.go") {
				continue
			}
			src, err := os.ReadFile(filepath.Join(repoDir, dir, n))
			if err != nil {
				continue
			}
			if m := regexp.MustCompile(`(?m)^package\s+(\w+)`).FindSubmatch(src); m != nil {
				pkgName = string(m[1])
			}
			if !lockStmt.Match(src) {
				continue
			}
			ns := lockStmt.ReplaceAll(src, []byte("${1}verifSchedPoint()\n${1}${2}.Lock()"))
			dst := filepath.Join(work, strings.ReplaceAll(dir, "/", "_")+"_"+n)
			os.WriteFile(dst, ns, 0o644)
			out[filepath.Join(repoDir, dir, n)] = dst
			touched = true
		}
		if touched && pkgName != "" {
			helper := "package " + pkgName + "\n\nimport (\n\t\"math/rand\"\n\t\"runtime\"\n\t\"time\"\n)\n\nfunc verifSchedPoint() {\n\tswitch rand.Intn(4) {\n\tcase 0:\n\t\truntime.Gosched()\n\tcase 1:\n\t\ttime.Sleep(time.Duration(rand.Intn(50)) * time.Microsecond)\n\t}\n}\n"
			dst := filepath.Join(work, strings.ReplaceAll(dir, "/", "_")+"_zz_verif_sched.go")
			os.WriteFile(dst, []byte(helper), 0o644)
			out[filepath.Join(repoDir, dir, "zz_verif_sched.go")] = dst
		}
	}
	return out
}

func replayNative(path string, v *Violation, ld *Loaded) (bool, string) {
	work := filepath.Join(verifDir, ".work", fmt.Sprintf("replay-%d-%d", os.Getpid(), time.Now().UnixNano()))
	os.MkdirAll(work, 0o755)
	defer os.RemoveAll(work)
	rel := pkgRel(v.Pkg)
	name := pkgNameOf(ld, v.Pkg)
	test := fmt.Sprintf(`//go:build verif

package %s

import (
	"fmt"
	"testing"
	"time"

	verifrt "%s"
)

func TestVerifReplay(t *testing.T) {
	done := make(chan string, 1)
	go func() {
		defer func() {
			if r := recover(); r != nil {
				if _, ok := r.(verifrt.ReplayEnd); ok {
					done <- ""
					return
				}
				done <- fmt.Sprintf("panic: %%v", r)
				return
			}
			done <- ""
		}()
		%s()
	}()
	var pan string
	hung := false
	select {
	case pan = <-done:
	case <-time.After(4 * time.Second):
		hung = true
	}
	// schedule-dependent counterexamples: the data is replayed exactly, the interleaving is searched
	// for by repeating the run with randomised yields at every lock acquisition
	deadline := time.Now().Add(%d * time.Second)
	iters := 1
	for !hung && pan == "" && len(verifrt.Failures) == 0 && time.Now().Before(deadline) {
		verifrt.Reset()
		iters++
		again := make(chan string, 1)
		go func() {
			defer func() {
				if r := recover(); r != nil {
					if _, ok := r.(verifrt.ReplayEnd); !ok {
						again <- fmt.Sprintf("panic: %%v", r)
						return
					}
				}
				again <- ""
			}()
			%s()
		}()
		select {
		case pan = <-again:
		case <-time.After(3 * time.Second):
			hung = true
		}
	}
	fmt.Printf("VERIF-REPLAY failures=%%q invalid=%%q panic=%%q hung=%%v iterations=%%d\n", verifrt.Failures, verifrt.Invalid, pan, hung, iters)
}
`, name, verifrtPath, v.Harness, stressSeconds(v), v.Harness)
	testPath := filepath.Join(work, "zz_verif_replay_test.go")
	os.WriteFile(testPath, []byte(test), 0o644)
	repl := map[string]string{}
	hdir := filepath.Join(verifDir, "harness")
	filepath.Walk(hdir, func(p string, info os.FileInfo, err error) error {
		if err == nil && !info.IsDir() && strings.HasSuffix(p, ".go") {
			r, _ := filepath.Rel(hdir, p)
			repl[filepath.Join(repoDir, r)] = p
		}
		return nil
	})
	repl[filepath.Join(repoDir, rel, "zz_verif_replay_test.go")] = testPath
	if schedDependent(v) {
		for k, p := range instrumentLocks(work, []string{rel, "internal/common"}) {
			repl[k] = p
		}
	}
	ovPath := filepath.Join(work, "overlay.json")
	data, _ := json.Marshal(map[string]any{"Replace": repl})
	os.WriteFile(ovPath, data, 0o644)

	ctx, cancel := context.WithTimeout(context.Background(), 300*time.Second)
	defer cancel()
	cmd := exec.CommandContext(ctx, "go", "test", "-tags", "verif", "-vet=off", "-count=1", "-v", "-run", "^TestVerifReplay$", "-overlay", ovPath, "./"+rel)
	cmd.Dir = repoDir
	cmd.Env = append(os.Environ(), "GOFLAGS=-mod=mod", "GOPROXY=off", "GOSUMDB=off", "GOTOOLCHAIN=local", "VERIF_REPLAY="+path)
	outb, _ := cmd.CombinedOutput()
	out := string(outb)
	line := ""
	for _, l := range strings.Split(out, "\n") {
		if strings.HasPrefix(l, "VERIF-REPLAY ") {
			line = l
		}
	}
	if line == "" {
		return false, "no replay line; output: " + tail(out, 600)
	}
	if !strings.Contains(line, "invalid=[]") {
		return false, line
	}
	switch v.Site {
	case "nopanic":
		return !strings.Contains(line, `panic=""`), line
	case "nodeadlock":
		return strings.Contains(line, "hung=true"), line
	}
	return strings.Contains(line, `"`+v.Site+`"`), line
}

func stressSeconds(v *Violation) int {
	if schedDependent(v) && v.Site != "nopanic" {
		return 40
	}
	return 0
}

func tail(s string, n int) string {
	if len(s) > n {
		return s[len(s)-n:]
	}
	return s
}

func cmdReplay(args []string) int {
	fs := flag.NewFlagSet("replay", flag.ExitOnError)
	file := fs.String("file", "", "replay file")
	fs.Parse(args)
	data, err := os.ReadFile(*file)
	if err != nil {
		fmt.Fprintln(os.Stderr, err)
		return 2
	}
	var v Violation
	if err := json.Unmarshal(data, &v); err != nil {
		fmt.Fprintln(os.Stderr, err)
		return 2
	}
	abs, _ := filepath.Abs(*file)
	ok, out := replayNative(abs, &v, nil)
	fmt.Println(out)
	if ok {
		fmt.Printf("REPRODUCED property=%s site=%s %s\n", v.Property, v.Site, describeNondets(v.Nondets))
		return 1
	}
	fmt.Println("NOT REPRODUCED")
	return 0
}

// validateWitnesses replays one concrete witness per run natively (the inputs of the first required
// reach marker): the real build must pass every assertion the engine discharged on that path.
// Returns the number of agreeing witnesses and a list of disagreements.
func validateWitnesses(results []*RunResult, ld *Loaded) (int, []string) {
	type wit struct {
		run, fn, file string
	}
	byPkg := map[string][]wit{}
	work := filepath.Join(verifDir, ".work", fmt.Sprintf("witness-%d-%d", os.Getpid(), time.Now().UnixNano()))
	os.MkdirAll(work, 0o755)
	defer os.RemoveAll(work)
	for _, r := range results {
		var nv []NondetVal
		found := false
		for _, id := range r.Spec.Reach {
			if s, ok := r.Ex.reachSample[id]; ok {
				nv, found = s, true
				break
			}
		}
		if !found {
			continue
		}
		v := &Violation{Property: r.Cfg.Property, Harness: r.Spec.Fn, Pkg: r.Spec.Pkg, Site: "witness", Nondets: nv, Params: r.Cfg.Params}
		file := filepath.Join(work, sanitize(r.Spec.Name)+".json")
		writeJSON(file, v)
		byPkg[r.Spec.Pkg] = append(byPkg[r.Spec.Pkg], wit{r.Spec.Name, r.Spec.Fn, file})
	}
	ok := 0
	var bad []string
	for pkg, ws := range byPkg {
		rel := pkgRel(pkg)
		name := pkgNameOf(ld, pkg)
		var sb strings.Builder
		fmt.Fprintf(&sb, "//go:build verif\n\npackage %s\n\nimport (\n\t\"fmt\"\n\t\"testing\"\n\t\"time\"\n\n\tverifrt \"%s\"\n)\n\n", name, verifrtPath)
		sb.WriteString("func TestVerifWitness(t *testing.T) {\n\tws := []struct {\n\t\trun, file string\n\t\tfn func()\n\t}{\n")
		for _, w := range ws {
			fmt.Fprintf(&sb, "\t\t{%q, %q, %s},\n", w.run, w.file, w.fn)
		}
		sb.WriteString(`	}
	for _, w := range ws {
		verifrt.LoadFile(w.file)
		done := make(chan string, 1)
		go func() {
			defer func() {
				if r := recover(); r != nil {
					if _, ok := r.(verifrt.ReplayEnd); ok {
						done <- ""
						return
					}
					done <- fmt.Sprintf("panic: %v", r)
					return
				}
				done <- ""
			}()
			w.fn()
		}()
		pan, hung := "", false
		select {
		case pan = <-done:
		case <-time.After(8 * time.Second):
			hung = true
		}
		fmt.Printf("VERIF-WITNESS run=%s failures=%q invalid=%q panic=%q hung=%v\n", w.run, verifrt.Failures, verifrt.Invalid, pan, hung)
		if hung {
			break
		}
	}
}
`)
		testPath := filepath.Join(work, sanitize(rel)+"_witness_test.go")
		os.WriteFile(testPath, []byte(sb.String()), 0o644)
		repl := map[string]string{}
		hdir := filepath.Join(verifDir, "harness")
		filepath.Walk(hdir, func(p string, info os.FileInfo, err error) error {
			if err == nil && !info.IsDir() && strings.HasSuffix(p, ".go") {
				r, _ := filepath.Rel(hdir, p)
				repl[filepath.Join(repoDir, r)] = p
			}
			return nil
		})
		repl[filepath.Join(repoDir, rel, "zz_verif_witness_test.go")] = testPath
		ovPath := filepath.Join(work, sanitize(rel)+"_overlay.json")
		data, _ := json.Marshal(map[string]any{"Replace": repl})
		os.WriteFile(ovPath, data, 0o644)
		ctx, cancel := context.WithTimeout(context.Background(), 600*time.Second)
		cmd := exec.CommandContext(ctx, "go", "test", "-tags", "verif", "-vet=off", "-count=1", "-v", "-run", "^TestVerifWitness$", "-overlay", ovPath, "./"+rel)
		cmd.Dir = repoDir
		cmd.Env = append(os.Environ(), "GOFLAGS=-mod=mod", "GOPROXY=off", "GOSUMDB=off", "GOTOOLCHAIN=local", "VERIF_REPLAY="+ws[0].file)
		outb, _ := cmd.CombinedOutput()
		cancel()
		seen := map[string]bool{}
		for _, l := range strings.Split(string(outb), "\n") {
			if !strings.HasPrefix(l, "VERIF-WITNESS ") {
				continue
			}
			f := strings.Fields(l)
			run := strings.TrimPrefix(f[1], "run=")
			seen[run] = true
			if strings.Contains(l, "failures=[]") && strings.Contains(l, "invalid=[]") && strings.Contains(l, `panic=""`) && strings.Contains(l, "hung=false") {
				ok++
			} else {
				bad = append(bad, fmt.Sprintf("run %s: the real build disagrees with the engine on a concrete witness: %s", run, l))
			}
		}
		for _, w := range ws {
			if !seen[w.run] {
				bad = append(bad, fmt.Sprintf("run %s: witness replay produced no result (%s)", w.run, firstLine(tail(string(outb), 300))))
			}
		}
	}
	return ok, bad
}
