package main

// Engine-side implementation of the harness API (package internal/verifrt), of regexp and of prometheus.

import (
	"fmt"
	"sync/atomic"
	"go/types"
	"regexp/syntax"
	"sort"
	"strings"
)

const verifrtPath = repoModule + "/internal/verifrt"

// byteClass is a set of bytes given by regexp char-class syntax ("" = every byte).
type byteClass struct {
	ranges [][2]int
	all    bool
}

func parseClass(spec string) (byteClass, error) {
	if spec == "" {
		return byteClass{all: true}, nil
	}
	re, err := syntax.Parse(spec, syntax.Perl)
	if err != nil {
		return byteClass{}, err
	}
	var bc byteClass
	add := func(lo, hi rune) {
		if lo > 0xff {
			return
		}
		if hi >= 0x80 {
			hi = 0xff // classes covering non-ASCII runes admit every high byte
		}
		bc.ranges = append(bc.ranges, [2]int{int(lo), int(hi)})
	}
	switch re.Op {
	case syntax.OpCharClass:
		for i := 0; i+1 < len(re.Rune); i += 2 {
			add(re.Rune[i], re.Rune[i+1])
		}
	case syntax.OpLiteral:
		if len(re.Rune) != 1 {
			return bc, fmt.Errorf("class %q: not a single character class", spec)
		}
		add(re.Rune[0], re.Rune[0])
	case syntax.OpAnyCharNotNL:
		add(0, '\n'-1)
		add('\n'+1, 0xff)
	case syntax.OpAnyChar:
		bc.all = true
	default:
		return bc, fmt.Errorf("class %q: unsupported syntax", spec)
	}
	return bc, nil
}

func (p *pathCtx) classTerm(bc byteClass, b *Term) *Term {
	ts := p.ts
	if bc.all {
		return ts.True
	}
	r := ts.False
	for _, x := range bc.ranges {
		if x[0] == x[1] {
			r = ts.Or(r, ts.Eq(b, ts.BV(uint64(x[0]), 8)))
		} else {
			r = ts.Or(r, ts.And(ts.Cmp(OpBvUle, ts.BV(uint64(x[0]), 8), b), ts.Cmp(OpBvUle, b, ts.BV(uint64(x[1]), 8))))
		}
	}
	return r
}

func (p *pathCtx) freshName(name string) string {
	p.nondetSeq++
	var sb strings.Builder
	for _, c := range name {
		if (c >= 'a' && c <= 'z') || (c >= 'A' && c <= 'Z') || (c >= '0' && c <= '9') || c == '_' {
			sb.WriteRune(c)
		} else {
			sb.WriteByte('_')
		}
	}
	return fmt.Sprintf("n%d_%s", p.nondetSeq, sb.String())
}

func (p *pathCtx) freshByte(name string, i int) *Term {
	b := p.ts.Var(fmt.Sprintf("%s_b%d", name, i), 8)
	if p.ex.cfg.Ascii7 {
		p.addPC(p.ts.Cmp(OpBvUlt, b, p.ts.BV(0x80, 8)))
	}
	return b
}

type fieldSpec struct {
	name     string
	min, max int
	class    string
}

// template builds one flat symbolic buffer holding literals and fields at symbolic offsets.
// Offsets are kept in a narrow width (the total length is a static bound) and every placement
// constraint is stated per buffer position, which bit-blasts to plain clauses.
func (p *pathCtx) template(parts []value) (symStr, []value) {
	ts := p.ts
	total := 0
	for _, part := range parts {
		switch x := part.(iface).v.(type) {
		case string:
			total += len(x)
		case structure:
			total += int(asInt64(x[2]))
		default:
			p.abort("unsupported", fmt.Sprintf("Template part of type %T", x))
		}
	}
	w := Sort(8)
	if total > 250 {
		w = 16
	}
	base := p.freshName("tmpl")
	buf := &symBuf{id: p.newBufID(), name: base}
	for i := 0; i < total; i++ {
		buf.b = append(buf.b, p.freshByte(base, i))
	}
	pos := ts.BV(0, w) // narrow
	minPos, maxPos := 0, 0
	var fields []value
	var cons []*Term
	for _, part := range parts {
		switch x := part.(iface).v.(type) {
		case string:
			if len(x) == 0 {
				continue
			}
			if minPos == maxPos {
				// concrete position: the bytes themselves are constants
				for j := 0; j < len(x); j++ {
					buf.b[minPos+j] = ts.BV(uint64(x[j]), 8)
				}
				pos = ts.BvBin(OpBvAdd, pos, ts.BV(uint64(len(x)), w))
				minPos += len(x)
				maxPos += len(x)
				continue
			}
			for i := minPos; i <= maxPos && i+len(x) <= total; i++ {
				here := ts.Eq(pos, ts.BV(uint64(i), w))
				if here.IsFalse() {
					continue
				}
				all := ts.True
				for j := 0; j < len(x); j++ {
					all = ts.And(all, ts.Eq(buf.b[i+j], ts.BV(uint64(x[j]), 8)))
				}
				cons = append(cons, ts.Implies(here, all))
			}
			pos = ts.BvBin(OpBvAdd, pos, ts.BV(uint64(len(x)), w))
			minPos += len(x)
			maxPos += len(x)
		case structure:
			fs := fieldSpec{name: x[0].(string), min: int(asInt64(x[1])), max: int(asInt64(x[2])), class: x[3].(string)}
			if len(x) > 4 {
				if split, _ := x[4].(bool); split && fs.max > fs.min {
					// case split on the field's length: one path per length, later parts keep concrete positions
					k := p.choose(fs.max-fs.min+1, "len:"+fs.name)
					fs.min += k
					fs.max = fs.min
				}
			}
			bc, err := parseClass(fs.class)
			if err != nil {
				p.abort("unsupported", err.Error())
			}
			nm := p.freshName(fs.name)
			var lv *Term
			if fs.min == fs.max {
				lv = ts.BV(uint64(fs.max), w)
			} else {
				lv = ts.Var(nm+"_len", w)
				cons = append(cons, ts.Cmp(OpBvUle, ts.BV(uint64(fs.min), w), lv), ts.Cmp(OpBvUle, lv, ts.BV(uint64(fs.max), w)))
			}
			end := ts.BvBin(OpBvAdd, pos, lv)
			if !bc.all {
				for i := minPos; i < maxPos+fs.max && i < total; i++ {
					ci := ts.BV(uint64(i), w)
					in := ts.And(ts.Cmp(OpBvUle, pos, ci), ts.Cmp(OpBvUlt, ci, end))
					cons = append(cons, ts.Implies(in, p.classTerm(bc, buf.b[i])))
				}
			}
			fv := symStr{buf: buf, off: ts.Zext(pos, int(64-w)), n: ts.Zext(lv, int(64-w)), max: fs.max}
			p.nondets = append(p.nondets, nondetRec{Name: fs.name, Kind: "str", Len: fv.n, Bytes: p.viewBytes(fv)})
			fields = append(fields, p.mkStr(fv))
			pos = end
			minPos += fs.min
			maxPos += fs.max
		}
	}
	for _, c := range cons {
		p.addPC(c)
	}
	line := symStr{buf: buf, off: ts.BV(0, 64), n: ts.Zext(pos, int(64-w)), max: total}
	return line, fields
}

func (p *pathCtx) nondetStr(name string, min, max int, class string) value {
	ts := p.ts
	bc, err := parseClass(class)
	if err != nil {
		p.abort("unsupported", err.Error())
	}
	nm := p.freshName(name)
	buf := &symBuf{id: p.newBufID(), name: nm}
	for i := 0; i < max; i++ {
		buf.b = append(buf.b, p.freshByte(nm, i))
	}
	var ln *Term
	if min == max {
		ln = ts.BV(uint64(max), 64)
	} else {
		w := Sort(8)
		if max > 255 {
			w = 16
		}
		lv := ts.Var(nm+"_len", w)
		ln = ts.Zext(lv, int(64-w))
		p.addPC(ts.Cmp(OpBvUle, ts.BV(uint64(min), 64), ln))
		p.addPC(ts.Cmp(OpBvUle, ln, ts.BV(uint64(max), 64)))
	}
	if !bc.all {
		for j := 0; j < max; j++ {
			p.addPC(ts.Implies(ts.Cmp(OpBvUlt, ts.BV(uint64(j), 64), ln), p.classTerm(bc, buf.b[j])))
		}
	}
	p.nondets = append(p.nondets, nondetRec{Name: name, Kind: "str", Len: ln, Bytes: buf.b})
	return p.mkStr(symStr{buf: buf, off: ts.BV(0, 64), n: ln, max: max})
}

func (p *pathCtx) isSubstring(hay, needle symStr) *Term {
	ts := p.ts
	cheap := ts.False
	if hay.buf == needle.buf {
		// needle is a view inside hay's window
		end := ts.BvBin(OpBvAdd, needle.off, needle.n)
		hend := ts.BvBin(OpBvAdd, hay.off, hay.n)
		cheap = ts.AndN(ts.Cmp(OpBvUle, hay.off, needle.off), ts.Cmp(OpBvUle, needle.off, end), ts.Cmp(OpBvUle, end, hend))
		cheap = ts.Or(cheap, ts.Eq(needle.n, ts.BV(0, 64)))
		if hay.max*needle.max > 6000 {
			return cheap
		}
	}
	H, Nd := p.viewBytes(hay), p.viewBytes(needle)
	r := ts.Eq(needle.n, ts.BV(0, 64))
	for o := 0; o < hay.max; o++ {
		m := ts.Cmp(OpBvUle, ts.BvBin(OpBvAdd, ts.BV(uint64(o), 64), needle.n), hay.n)
		for i := 0; i < needle.max && o+i < hay.max && !m.IsFalse(); i++ {
			m = ts.And(m, ts.Implies(ts.Cmp(OpBvUlt, ts.BV(uint64(i), 64), needle.n), ts.Eq(H[o+i], Nd[i])))
		}
		if needle.max > hay.max-o {
			m = ts.And(m, ts.Cmp(OpBvUle, needle.n, ts.BV(uint64(hay.max-o), 64)))
		}
		r = ts.Or(r, m)
	}
	return ts.Or(cheap, r)
}

func (p *pathCtx) msgMentions(msg value, s value, depth int) *Term {
	ts := p.ts
	if depth > 8 {
		return ts.False
	}
	m, ok := msg.(string)
	if !ok {
		return p.isSubstring(p.strOf(msg), p.strOf(s))
	}
	args, ok := p.fmtArgs[m]
	if !ok {
		return p.isSubstring(p.strOf(m), p.strOf(s))
	}
	r := ts.False
	for _, a := range args {
		ai, ok := a.(iface)
		if !ok {
			continue
		}
		switch v := ai.v.(type) {
		case string, symStr:
			r = ts.Or(r, p.msgMentions(v, s, depth+1))
		default:
			// error operand: use its message
			if ai.t != nil {
				if em, ok := p.interp.callMethodByName(ai, "Error"); ok {
					r = ts.Or(r, p.msgMentions(em, s, depth+1))
				}
			}
		}
	}
	return r
}

func init() {
	st := exactStubs
	V := verifrtPath + "."
	st[V+"Int"] = func(fr *frame, args []value) value {
		p := fr.i.p
		name := args[0].(string)
		lo, hi := asInt64(args[1]), asInt64(args[2])
		if lo == hi {
			p.nondets = append(p.nondets, nondetRec{Name: name, Kind: "choose", Conc: lo})
			return int(lo)
		}
		v := p.ts.Var(p.freshName(name), 64)
		p.addPC(p.ts.Cmp(OpBvSle, p.ts.BV(uint64(lo), 64), v))
		p.addPC(p.ts.Cmp(OpBvSle, v, p.ts.BV(uint64(hi), 64)))
		p.nondets = append(p.nondets, nondetRec{Name: name, Kind: "int", Term: v})
		return symInt{v, types.Int}
	}
	st[V+"Bool"] = func(fr *frame, args []value) value {
		p := fr.i.p
		name := args[0].(string)
		v := p.ts.Var(p.freshName(name), BoolSort)
		p.nondets = append(p.nondets, nondetRec{Name: name, Kind: "bool", Term: v})
		return symBool{v}
	}
	st[V+"Str"] = func(fr *frame, args []value) value {
		return fr.i.p.nondetStr(args[0].(string), int(asInt64(args[1])), int(asInt64(args[2])), args[3].(string))
	}
	st[V+"Choose"] = func(fr *frame, args []value) value {
		p := fr.i.p
		n := int(asInt64(args[1]))
		k := p.choose(n, "choose:"+args[0].(string))
		p.nondets = append(p.nondets, nondetRec{Name: args[0].(string), Kind: "choose", Conc: int64(k)})
		return k
	}
	st[V+"Assume"] = func(fr *frame, args []value) value {
		fr.i.p.assume(fr.i.p.boolTerm(args[0]))
		return nil
	}
	st[V+"Assert"] = func(fr *frame, args []value) value {
		fr.i.p.assert(args[0].(string), fr.i.p.boolTerm(args[1]))
		return nil
	}
	st[V+"AssertEqStr"] = func(fr *frame, args []value) value {
		p := fr.i.p
		a, b := p.strOf(args[1]), p.strOf(args[2])
		id := args[0].(string)
		if !p.siteWanted(id) {
			return nil
		}
		if a.buf == b.buf && !(a.off == b.off) {
			// views of one buffer: identical position and length is a sufficient condition; try it first
			cheap := p.ts.And(p.ts.Eq(a.off, b.off), p.ts.Eq(a.n, b.n))
			if r, _ := p.prove(cheap); r == Unsat {
				st := p.ex.site(id)
				atomic.AddInt64(&st.Evaluated, 1)
				atomic.AddInt64(&st.Symbolic, 1)
				atomic.AddInt64(&st.Discharged, 1)
				atomic.AddInt64(&st.SymDischarged, 1)
				p.addPC(cheap)
				return nil
			}
		}
		p.assert(id, p.strEq(a, b))
		return nil
	}
	st[V+"Reach"] = func(fr *frame, args []value) value {
		fr.i.p.reachMark(args[0].(string))
		return nil
	}
	st[V+"Note"] = func(fr *frame, args []value) value {
		if s, ok := args[0].(string); ok {
			fr.i.p.notes = append(fr.i.p.notes, s)
		}
		return nil
	}
	st[V+"And"] = func(fr *frame, args []value) value {
		p := fr.i.p
		return p.mkBool(p.ts.And(p.boolTerm(args[0]), p.boolTerm(args[1])))
	}
	st[V+"Or"] = func(fr *frame, args []value) value {
		p := fr.i.p
		return p.mkBool(p.ts.Or(p.boolTerm(args[0]), p.boolTerm(args[1])))
	}
	st[V+"Not"] = func(fr *frame, args []value) value {
		p := fr.i.p
		return p.mkBool(p.ts.Not(p.boolTerm(args[0])))
	}
	st[V+"Implies"] = func(fr *frame, args []value) value {
		p := fr.i.p
		return p.mkBool(p.ts.Implies(p.boolTerm(args[0]), p.boolTerm(args[1])))
	}
	st[V+"Iff"] = func(fr *frame, args []value) value {
		p := fr.i.p
		return p.mkBool(p.ts.Eq(p.boolTerm(args[0]), p.boolTerm(args[1])))
	}
	st[V+"Param"] = func(fr *frame, args []value) value {
		if v, ok := fr.i.p.ex.cfg.Params[args[0].(string)]; ok {
			return v
		}
		return int(asInt64(args[1]))
	}
	st[V+"Symbolic"] = func(fr *frame, args []value) value { return true }
	st[V+"Template"] = func(fr *frame, args []value) value {
		line, fields := fr.i.p.template(args[0].([]value))
		return structure{fr.i.p.mkStr(line), fields}
	}
	st[V+"InClass"] = func(fr *frame, args []value) value {
		p := fr.i.p
		bc, err := parseClass(args[1].(string))
		if err != nil {
			p.abort("unsupported", err.Error())
		}
		s := p.strOf(args[0])
		bs := p.viewBytes(s)
		r := p.ts.True
		for j := 0; j < s.max; j++ {
			r = p.ts.And(r, p.ts.Implies(p.ts.Cmp(OpBvUlt, p.ts.BV(uint64(j), 64), s.n), p.classTerm(bc, bs[j])))
		}
		return p.mkBool(r)
	}
	st[V+"IsSubstring"] = func(fr *frame, args []value) value {
		p := fr.i.p
		return p.mkBool(p.isSubstring(p.strOf(args[0]), p.strOf(args[1])))
	}
	st[V+"HasPrefix"] = func(fr *frame, args []value) value {
		p := fr.i.p
		s, pre := p.strOf(args[0]), p.strOf(args[1])
		ts := p.ts
		r := ts.Cmp(OpBvUle, pre.n, s.n)
		S, P := p.viewBytes(s), p.viewBytes(pre)
		for j := 0; j < pre.max; j++ {
			var sb *Term
			if j < len(S) {
				sb = S[j]
			} else {
				r = ts.And(r, ts.Cmp(OpBvUle, pre.n, ts.BV(uint64(j), 64)))
				break
			}
			r = ts.And(r, ts.Implies(ts.Cmp(OpBvUlt, ts.BV(uint64(j), 64), pre.n), ts.Eq(sb, P[j])))
		}
		return p.mkBool(r)
	}
	st[V+"MsgMentions"] = func(fr *frame, args []value) value {
		p := fr.i.p
		return p.mkBool(p.msgMentions(args[0], args[1], 0))
	}
	st[V+"JSONField"] = func(fr *frame, args []value) value {
		pv, _ := args[0].(*value)
		key := args[1].(string)
		if pv == nil {
			return tuple{"", false}
		}
		raw, _ := (*pv).([]value)
		if len(raw) == 1 {
			if o, ok := raw[0].(*opaque); ok && o.kind == "json" {
				if v, ok := o.data[key]; ok {
					return tuple{v, true}
				}
			}
		}
		return tuple{"", false}
	}
	st[V+"JSONMap"] = func(fr *frame, args []value) value {
		raw, _ := args[0].([]value)
		m := &amap{}
		for _, r := range raw {
			if o, ok := r.(*opaque); ok && o.kind == "json" {
				var keys []string
				for k := range o.data {
					keys = append(keys, k)
				}
				sort.Strings(keys)
				for _, k := range keys {
					m.entries = append(m.entries, &mapEntry{key: k, val: o.data[k]})
				}
			}
		}
		return m
	}
	st[V+"LoginCounts"] = func(fr *frame, args []value) value {
		p := fr.i.p
		var keys []string
		for k, n := range p.counters {
			if strings.HasPrefix(k, "remote_logins_total{") {
				keys = append(keys, fmt.Sprintf("%s=%d", strings.TrimSuffix(strings.TrimPrefix(k, "remote_logins_total{"), "}"), n))
			}
		}
		sort.Strings(keys)
		return sliceOfStrings(keys)
	}
	st[V+"TimeLE"] = func(fr *frame, args []value) value {
		p := fr.i.p
		a, b := args[0].(structure), args[1].(structure)
		// engine times carry wall=0: compare seconds (ext)
		if !p.eqTerm(a[0], uint64(0)).IsTrue() || !p.eqTerm(b[0], uint64(0)).IsTrue() {
			p.abort("unsupported", "TimeLE on a time with wall bits")
		}
		return p.mkBool(p.ts.Cmp(OpBvSle, p.i64(a[1]), p.i64(b[1])))
	}
	st[V+"Advance"] = func(fr *frame, args []value) value {
		p := fr.i.p
		d := p.i64(args[0])
		if p.clockOffset == nil {
			p.clockOffset = d
		} else {
			p.clockOffset = p.ts.BvBin(OpBvAdd, p.clockOffset, d)
		}
		return nil
	}
	st[V+"Unix"] = func(fr *frame, args []value) value {
		// time.Time with the given seconds offset from the engine's clock base
		p := fr.i.p
		const base = 63800000000
		sec := p.ts.BvBin(OpBvAdd, p.i64(args[0]), p.ts.BV(base, 64))
		return structure{uint64(0), p.mkInt(sec, types.Int64), (*value)(nil)}
	}

	// ---------------- regexp ----------------
	st["regexp.MustCompile"] = func(fr *frame, args []value) value {
		pat, ok := args[0].(string)
		if !ok {
			fr.i.p.abort("unsupported", "regexp.MustCompile of a non-constant pattern")
		}
		o, err := compileRegex(pat)
		if err != nil {
			panic(targetPanic{"regexp: Compile: " + err.Error()})
		}
		var cell value = &opaque{kind: "regexp", data: map[string]value{"obj": o}}
		return &cell
	}
	st["regexp.Compile"] = func(fr *frame, args []value) value {
		pat := args[0].(string)
		o, err := compileRegex(pat)
		if err != nil {
			return tuple{(*value)(nil), fr.i.mkError(err.Error())}
		}
		var cell value = &opaque{kind: "regexp", data: map[string]value{"obj": o}}
		return tuple{&cell, nilError()}
	}
	reOf := func(v value) *regexObj {
		pv := v.(*value)
		if pv == nil {
			panic(targetPanic{"runtime error: invalid memory address or nil pointer dereference"})
		}
		return (*pv).(*opaque).data["obj"].(*regexObj)
	}
	st["(*regexp.Regexp).MatchString"] = func(fr *frame, args []value) value {
		o := reOf(args[0])
		if s, ok := args[1].(string); ok {
			return o.re.MatchString(s)
		}
		return fr.i.p.mkBool(fr.i.p.regexMatch(o, args[1].(symStr)))
	}
	st["(*regexp.Regexp).FindStringSubmatch"] = func(fr *frame, args []value) value {
		o := reOf(args[0])
		p := fr.i.p
		if s, ok := args[1].(string); ok {
			m := o.re.FindStringSubmatch(s)
			if m == nil {
				return []value(nil)
			}
			return sliceOfStrings(m)
		}
		matched, views := p.regexSubmatch(o, args[1].(symStr))
		if !p.branch(matched, "regex-match") {
			return []value(nil)
		}
		out := make([]value, len(views))
		for i, v := range views {
			out[i] = p.mkStr(v)
		}
		return out
	}
	st["(*regexp.Regexp).SubexpIndex"] = func(fr *frame, args []value) value {
		return reOf(args[0]).re.SubexpIndex(args[1].(string))
	}
	st["(*regexp.Regexp).String"] = func(fr *frame, args []value) value { return reOf(args[0]).pattern }
	st["(*regexp.Regexp).NumSubexp"] = func(fr *frame, args []value) value { return reOf(args[0]).re.NumSubexp() }

	// ---------------- prometheus ----------------
	P := "github.com/prometheus/client_golang/prometheus."
	optName := func(fr *frame, v value, tname string) string {
		t := fr.i.ld.namedType(strings.TrimSuffix(P, "."), tname)
		s, ok := v.(structure)
		if t == nil || !ok {
			return "?"
		}
		stt := t.Underlying().(*types.Struct)
		for k := 0; k < stt.NumFields(); k++ {
			if stt.Field(k).Name() == "Name" {
				n, _ := s[k].(string)
				return n
			}
		}
		return "?"
	}
	st[P+"NewRegistry"] = func(fr *frame, args []value) value {
		var cell value = &opaque{kind: "registry"}
		return &cell
	}
	st[P+"NewCounterVec"] = func(fr *frame, args []value) value {
		var cell value = &opaque{kind: "countervec", str: optName(fr, args[0], "CounterOpts")}
		return &cell
	}
	st[P+"NewGaugeVec"] = func(fr *frame, args []value) value {
		var cell value = &opaque{kind: "gaugevec", str: optName(fr, args[0], "GaugeOpts")}
		return &cell
	}
	st["(*"+P+"Registry).MustRegister"] = func(fr *frame, args []value) value { return nil }
	st["(*"+P+"Registry).Register"] = func(fr *frame, args []value) value { return nilError() }
	st["(*"+P+"CounterVec).WithLabelValues"] = func(fr *frame, args []value) value {
		vec := (*args[0].(*value)).(*opaque)
		var labels []string
		for _, l := range args[1].([]value) {
			s, ok := l.(string)
			if !ok {
				s = "<symbolic>"
			}
			labels = append(labels, s)
		}
		var cell value = &opaque{kind: "counter", str: vec.str + "{" + strings.Join(labels, "/") + "}"}
		t := fr.i.ld.namedType(strings.TrimSuffix(P, "."), "counter")
		return iface{t: types.NewPointer(t), v: &cell}
	}
	st["(*"+P+"counter).Inc"] = func(fr *frame, args []value) value {
		p := fr.i.p
		c := (*args[0].(*value)).(*opaque)
		if p.counters == nil {
			p.counters = map[string]int{}
		}
		p.counters[c.str]++
		return nil
	}
	st["(*"+P+"GaugeVec).WithLabelValues"] = func(fr *frame, args []value) value {
		var cell value = &opaque{kind: "gauge"}
		t := fr.i.ld.namedType(strings.TrimSuffix(P, "."), "gauge")
		return iface{t: types.NewPointer(t), v: &cell}
	}
	st["(*"+P+"gauge).Set"] = func(fr *frame, args []value) value { return nil }
}
