// Copyright 2013 The Go Authors. All rights reserved.
// Use of this source code is governed by a BSD-style
// license that can be found in the LICENSE file.

// Package ssa/interp defines an interpreter for the SSA
// representation of Go programs.
//
// This interpreter is provided as an adjunct for testing the SSA
// construction algorithm.  Its purpose is to provide a minimal
// metacircular implementation of the dynamic semantics of each SSA
// instruction.  It is not, and will never be, a production-quality Go
// interpreter.
//
// The following is a partial list of Go features that are currently
// unsupported or incomplete in the interpreter.
//
// * Unsafe operations, including all uses of unsafe.Pointer, are
// impossible to support given the "boxed" value representation we
// have chosen.
//
// * The reflect package is only partially implemented.
//
// * The "testing" package is no longer supported because it
// depends on low-level details that change too often.
//
// * "sync/atomic" operations are not atomic due to the "boxed" value
// representation: it is not possible to read, modify and write an
// interface value atomically. As a consequence, Mutexes are currently
// broken.
//
// * recover is only partially implemented.  Also, the interpreter
// makes no attempt to distinguish target panics from interpreter
// crashes.
//
// * the sizes of the int, uint and uintptr types in the target
// program are assumed to be the same as those of the interpreter
// itself.
//
// * all values occupy space, even those of types defined by the spec
// to have zero size, e.g. struct{}.  This can cause asymptotic
// performance degradation.
//
// * os.Exit is implemented using panic, causing deferred functions to
// run.
package main

import (
	"fmt"
	"go/token"
	"go/types"
	"os"
	"runtime"
	"slices"

	"golang.org/x/tools/go/ssa"
)

type continuation int

const (
	kNext continuation = iota
	kReturn
	kJump
)

// Mode is a bitmask of options affecting the interpreter.
type Mode uint

const (
	DisableRecover Mode = 1 << iota // Disable recover() in target programs; show interpreter crash instead.
	EnableTracing                   // Print a trace of all instructions as they are interpreted.
)

type methodSet map[string]*ssa.Function

// State of one path execution.
type interpreter struct {
	prog               *ssa.Program           // the SSA program
	globals            map[*ssa.Global]*value // addresses of global variables (allocated lazily)
	mode               Mode                   // interpreter options
	runtimeErrorString types.Type             // the runtime.errorString type
	sizes              types.Sizes            // the effective type-sizing function
	p                  *pathCtx
	ld                 *Loaded
	funcsEntered       map[string]bool
	lastInstr          ssa.Instruction
	lastFn             *ssa.Function
}

func newInterpreter(ld *Loaded, p *pathCtx) *interpreter {
	tm := Mode(0)
	if os.Getenv("SYMGO_TRACE") != "" {
		tm = EnableTracing
	}
	return &interpreter{mode: tm, prog: ld.prog, globals: make(map[*ssa.Global]*value), sizes: ld.sizes,
		runtimeErrorString: ld.runtimeErrorString, p: p, ld: ld, funcsEntered: map[string]bool{}}
}

func (i *interpreter) where() string {
	if i == nil || i.lastInstr == nil {
		return ""
	}
	pos := i.lastInstr.Pos()
	fn := ""
	if i.lastFn != nil {
		fn = i.lastFn.String()
		if pos == token.NoPos {
			pos = i.lastFn.Pos()
		}
	}
	return fmt.Sprintf(" [in %s at %s]", fn, i.prog.Fset.Position(pos))
}

func (i *interpreter) runInits() {
	for _, pkg := range i.ld.initOrder {
		if i.ld.initExtraPkg[pkg] && i.p.ex.cfg.NoInitExtra {
			continue
		}
		if f := pkg.Func("init"); f != nil {
			call(i, nil, token.NoPos, f, nil)
		}
	}
}

type deferred struct {
	fn    value
	args  []value
	instr *ssa.Defer
	tail  *deferred
}

type frame struct {
	i                *interpreter
	caller           *frame
	fn               *ssa.Function
	block, prevBlock *ssa.BasicBlock
	env              map[ssa.Value]value // dynamic values of SSA variables
	locals           []value
	defers           *deferred
	result           value
	panicking        bool
	panic            interface{}
	phitemps         []value // temporaries for parallel phi assignment
}

func (fr *frame) get(key ssa.Value) value {
	switch key := key.(type) {
	case nil:
		// Hack; simplifies handling of optional attributes
		// such as ssa.Slice.{Low,High}.
		return nil
	case *ssa.Function, *ssa.Builtin:
		return key
	case *ssa.Const:
		return constValue(key)
	case *ssa.Global:
		if r, ok := fr.i.globals[key]; ok {
			return r
		}
		cell := zero(mustDeref(key.Type()))
		fr.i.globals[key] = &cell
		return &cell
	}
	if r, ok := fr.env[key]; ok {
		return r
	}
	panic(fmt.Sprintf("get: no value for %T: %v", key, key.Name()))
}

// runDefer runs a deferred call d.
// It always returns normally, but may set or clear fr.panic.
func (fr *frame) runDefer(d *deferred) {
	if fr.i.mode&EnableTracing != 0 {
		fmt.Fprintf(os.Stderr, "%s: invoking deferred function call\n",
			fr.i.prog.Fset.Position(d.instr.Pos()))
	}
	var ok bool
	defer func() {
		if !ok {
			// Deferred call created a new state of panic.
			fr.panicking = true
			fr.panic = recover()
		}
	}()
	call(fr.i, fr, d.instr.Pos(), d.fn, d.args)
	ok = true
}

// runDefers executes fr's deferred function calls in LIFO order.
//
// On entry, fr.panicking indicates a state of panic; if
// true, fr.panic contains the panic value.
//
// On completion, if a deferred call started a panic, or if no
// deferred call recovered from a previous state of panic, then
// runDefers itself panics after the last deferred call has run.
//
// If there was no initial state of panic, or it was recovered from,
// runDefers returns normally.
func (fr *frame) runDefers() {
	for d := fr.defers; d != nil; d = d.tail {
		fr.runDefer(d)
	}
	fr.defers = nil
	if fr.panicking {
		panic(fr.panic) // new panic, or still panicking
	}
}

// lookupMethod returns the method set for type typ, which may be one
// of the interpreter's fake types.
func lookupMethod(i *interpreter, typ types.Type, meth *types.Func) *ssa.Function {
	return i.prog.LookupMethod(typ, meth.Pkg(), meth.Name())
}

// visitInstr interprets a single ssa.Instruction within the activation
// record frame.  It returns a continuation value indicating where to
// read the next instruction from.
func visitInstr(fr *frame, instr ssa.Instruction) continuation {
	switch instr := instr.(type) {
	case *ssa.DebugRef:
		// no-op

	case *ssa.UnOp:
		fr.env[instr] = unop(fr.i, instr, fr.get(instr.X))

	case *ssa.BinOp:
		fr.env[instr] = binop(fr.i, instr.Op, instr.X.Type(), fr.get(instr.X), fr.get(instr.Y))

	case *ssa.Call:
		fn, args := prepareCall(fr, &instr.Call)
		fr.env[instr] = call(fr.i, fr, instr.Pos(), fn, args)

	case *ssa.ChangeInterface:
		fr.env[instr] = fr.get(instr.X)

	case *ssa.ChangeType:
		fr.env[instr] = fr.get(instr.X) // (can't fail)

	case *ssa.Convert:
		fr.env[instr] = conv(fr.i, instr.Type(), instr.X.Type(), fr.get(instr.X))

	case *ssa.SliceToArrayPointer:
		fr.env[instr] = sliceToArrayPointer(instr.Type(), instr.X.Type(), fr.get(instr.X))

	case *ssa.MakeInterface:
		fr.env[instr] = iface{t: instr.X.Type(), v: fr.get(instr.X)}

	case *ssa.Extract:
		fr.env[instr] = fr.get(instr.Tuple).(tuple)[instr.Index]

	case *ssa.Slice:
		fr.env[instr] = slice(fr.i, fr.get(instr.X), fr.get(instr.Low), fr.get(instr.High), fr.get(instr.Max))

	case *ssa.Return:
		switch len(instr.Results) {
		case 0:
		case 1:
			fr.result = fr.get(instr.Results[0])
		default:
			var res []value
			for _, r := range instr.Results {
				res = append(res, fr.get(r))
			}
			fr.result = tuple(res)
		}
		fr.block = nil
		return kReturn

	case *ssa.RunDefers:
		fr.runDefers()

	case *ssa.Panic:
		panic(targetPanic{fr.get(instr.X)})

	case *ssa.Send:
		ch, _ := fr.get(instr.Chan).(*schan)
		fr.i.p.chanOp([]chanCase{{ch: ch, send: true, val: fr.get(instr.X)}}, false, "send"+fr.i.where())

	case *ssa.Store:
		addr := fr.get(instr.Addr)
		if sp, ok := addr.(symPtr); ok {
			// writes need a concrete cell: fork on the index
			k := fr.i.p.concretize(sp.idx, "store-index")
			addr = &sp.base[k]
		}
		storeP(fr.i.p, mustDeref(instr.Addr.Type()), addr.(*value), fr.get(instr.Val))

	case *ssa.If:
		succ := 1
		switch c := fr.get(instr.Cond).(type) {
		case bool:
			if c {
				succ = 0
			}
		case symBool:
			if fr.i.p.branch(c.t, "if") {
				succ = 0
			}
		}
		fr.prevBlock, fr.block = fr.block, fr.block.Succs[succ]
		return kJump

	case *ssa.Jump:
		fr.prevBlock, fr.block = fr.block, fr.block.Succs[0]
		return kJump

	case *ssa.Defer:
		fn, args := prepareCall(fr, &instr.Call)
		defers := &fr.defers
		if into := fr.get(instr.DeferStack); into != nil {
			defers = into.(**deferred)
		}
		*defers = &deferred{
			fn:    fn,
			args:  args,
			instr: instr,
			tail:  *defers,
		}

	case *ssa.Go:
		fn, args := prepareCall(fr, &instr.Call)
		i := fr.i
		name := fmt.Sprintf("go@%s", i.prog.Fset.Position(instr.Pos()))
		i.p.spawn(name, false, func() { call(i, nil, instr.Pos(), fn, args) })
		i.p.yieldPoint()

	case *ssa.MakeChan:
		fr.env[instr] = fr.i.p.makeChan(int(fr.i.concInt(fr.get(instr.Size), "chan-size")))

	case *ssa.Alloc:
		var addr *value
		if instr.Heap {
			// new
			addr = new(value)
			fr.env[instr] = addr
		} else {
			// local
			addr = fr.env[instr].(*value)
		}
		*addr = zero(mustDeref(instr.Type()))

	case *ssa.MakeSlice:
		slice := make([]value, fr.i.concInt(fr.get(instr.Cap), "makeslice-cap"))
		tElt := instr.Type().Underlying().(*types.Slice).Elem()
		for i := range slice {
			slice[i] = zero(tElt)
		}
		fr.env[instr] = slice[:fr.i.concInt(fr.get(instr.Len), "makeslice-len")]

	case *ssa.MakeMap:
		fr.env[instr] = &amap{}

	case *ssa.Range:
		fr.env[instr] = rangeIter(fr.i, fr.get(instr.X), instr.X.Type())

	case *ssa.Next:
		fr.env[instr] = fr.get(instr.Iter).(iter).next()

	case *ssa.FieldAddr:
		fr.env[instr] = fieldAddr(fr, instr)

	case *ssa.Field:
		fr.env[instr] = fr.get(instr.X).(structure)[instr.Field]

	case *ssa.IndexAddr:
		x := fr.get(instr.X)
		if si, ok := fr.get(instr.Index).(symInt); ok {
			if sp, ok := fr.i.p.trySymPtr(x, si); ok {
				fr.env[instr] = sp
				break
			}
		}
		idx := fr.i.concInt(fr.get(instr.Index), "index")
		switch x := x.(type) {
		case []value:
			if idx < 0 || idx >= int64(len(x)) {
				panic(targetPanic{fmt.Sprintf("runtime error: index out of range [%d] with length %d", idx, len(x))})
			}
			fr.env[instr] = &x[idx]
		case *value: // *array
			if x == nil {
				panic(targetPanic{"runtime error: invalid memory address or nil pointer dereference"})
			}
			a := (*x).(array)
			if idx < 0 || idx >= int64(len(a)) {
				panic(targetPanic{fmt.Sprintf("runtime error: index out of range [%d] with length %d", idx, len(a))})
			}
			fr.env[instr] = &a[idx]
		default:
			panic(fmt.Sprintf("unexpected x type in IndexAddr: %T", x))
		}

	case *ssa.Index:
		x := fr.get(instr.X)
		idx := fr.get(instr.Index)

		switch x := x.(type) {
		case array:
			if si, ok := idx.(symInt); ok {
				if sp, ok := fr.i.p.trySymPtr([]value(x), si); ok {
					fr.env[instr] = fr.i.p.loadSymPtr(sp)
					break
				}
			}
			k := fr.i.concInt(idx, "index")
			if k < 0 || k >= int64(len(x)) {
				panic(targetPanic{"runtime error: index out of range"})
			}
			fr.env[instr] = x[k]
		case string:
			if isSym(idx) {
				fr.env[instr] = fr.i.p.strIndex(fr.i.p.strOf(x), idx)
			} else {
				k := asInt64(idx)
				if k < 0 || k >= int64(len(x)) {
					panic(targetPanic{fmt.Sprintf("runtime error: index out of range [%d] with length %d", k, len(x))})
				}
				fr.env[instr] = x[k]
			}
		case symStr:
			fr.env[instr] = fr.i.p.strIndex(x, idx)
		default:
			panic(fmt.Sprintf("unexpected x type in Index: %T", x))
		}

	case *ssa.Lookup:
		fr.env[instr] = lookup(fr.i, instr, fr.get(instr.X), fr.get(instr.Index))

	case *ssa.MapUpdate:
		m, _ := fr.get(instr.Map).(*amap)
		fr.i.p.mapInsert(m, fr.get(instr.Key), fr.get(instr.Value))

	case *ssa.TypeAssert:
		fr.env[instr] = typeAssert(fr.i, instr, fr.get(instr.X).(iface))

	case *ssa.MakeClosure:
		var bindings []value
		for _, binding := range instr.Bindings {
			bindings = append(bindings, fr.get(binding))
		}
		fr.env[instr] = &closure{instr.Fn.(*ssa.Function), bindings}

	case *ssa.Phi:
		panic("unreachable: phi")

	case *ssa.Select:
		var cases []chanCase
		for _, state := range instr.States {
			ch, _ := fr.get(state.Chan).(*schan)
			c := chanCase{ch: ch, send: state.Dir != types.RecvOnly}
			if state.Send != nil {
				c.val = fr.get(state.Send)
			}
			cases = append(cases, c)
		}
		chosen, recv, recvOk := fr.i.p.chanOp(cases, !instr.Blocking, "select"+fr.i.where())
		r := tuple{chosen, recvOk}
		for i, st := range instr.States {
			if st.Dir == types.RecvOnly {
				var v value
				if i == chosen && recvOk && recv != nil {
					v = recv
				} else {
					v = zero(st.Chan.Type().Underlying().(*types.Chan).Elem())
				}
				r = append(r, v)
			}
		}
		fr.env[instr] = r

	default:
		panic(fmt.Sprintf("unexpected instruction: %T", instr))
	}

	// if val, ok := instr.(ssa.Value); ok {
	// 	fmt.Println(toString(fr.env[val])) // debugging
	// }

	return kNext
}

// prepareCall determines the function value and argument values for a
// function call in a Call, Go or Defer instruction, performing
// interface method lookup if needed.
func prepareCall(fr *frame, call *ssa.CallCommon) (fn value, args []value) {
	v := fr.get(call.Value)
	if call.Method == nil {
		// Function call.
		fn = v
	} else {
		// Interface method invocation.
		recv := v.(iface)
		if recv.t == nil {
			panic("method invoked on nil interface")
		}
		if f := lookupMethod(fr.i, recv.t, call.Method); f == nil {
			// Unreachable in well-typed programs.
			panic(fmt.Sprintf("method set for dynamic type %v does not contain %s", recv.t, call.Method))
		} else {
			fn = f
		}
		args = append(args, recv.v)
	}
	for _, arg := range call.Args {
		args = append(args, fr.get(arg))
	}
	return
}

// call interprets a call to a function (function, builtin or closure)
// fn with arguments args, returning its result.
// callpos is the position of the callsite.
func call(i *interpreter, caller *frame, callpos token.Pos, fn value, args []value) value {
	switch fn := fn.(type) {
	case *ssa.Function:
		if fn == nil {
			panic("call of nil function") // nil of func type
		}
		return callSSA(i, caller, callpos, fn, args, nil)
	case *closure:
		return callSSA(i, caller, callpos, fn.Fn, args, fn.Env)
	case *ssa.Builtin:
		return callBuiltin(caller, callpos, fn, args)
	}
	panic(fmt.Sprintf("cannot call %T", fn))
}

func loc(fset *token.FileSet, pos token.Pos) string {
	if pos == token.NoPos {
		return ""
	}
	return " at " + fset.Position(pos).String()
}

// callSSA interprets a call to function fn with arguments args,
// and lexical environment env, returning its result.
// callpos is the position of the callsite.
func callSSA(i *interpreter, caller *frame, callpos token.Pos, fn *ssa.Function, args []value, env []value) value {
	if i.mode&EnableTracing != 0 {
		fset := fn.Prog.Fset
		// TODO(adonovan): fix: loc() lies for external functions.
		fmt.Fprintf(os.Stderr, "Entering %s%s.\n", fn, loc(fset, fn.Pos()))
		suffix := ""
		if caller != nil {
			suffix = ", resuming " + caller.fn.String() + loc(fset, callpos)
		}
		defer fmt.Fprintf(os.Stderr, "Leaving %s%s.\n", fn, suffix)
	}
	fr := &frame{
		i:      i,
		caller: caller, // for panic/recover
		fn:     fn,
	}
	if st := i.ld.stubFor(fn); st != nil {
		fr.env = nil
		if r := st(fr, args); r != (stubDecline{}) {
			return r
		}
		// the stub declined these arguments: run the function's real body
	}
	if fn.Blocks == nil {
		panic(pathAbort{"unsupported", "no code for function: " + fn.String() + i.where()})
	}
	if i.ld.isRepoFn(fn) {
		i.funcsEntered[fn.String()] = true
	}

	// generic function body?
	if fn.TypeParams().Len() > 0 && len(fn.TypeArgs()) == 0 {
		panic("interp requires ssa.BuilderMode to include InstantiateGenerics to execute generics")
	}

	fr.env = make(map[ssa.Value]value)
	fr.block = fn.Blocks[0]
	fr.locals = make([]value, len(fn.Locals))
	for i, l := range fn.Locals {
		fr.locals[i] = zero(mustDeref(l.Type()))
		fr.env[l] = &fr.locals[i]
	}
	for i, p := range fn.Params {
		fr.env[p] = args[i]
	}
	for i, fv := range fn.FreeVars {
		fr.env[fv] = env[i]
	}
	for fr.block != nil {
		runFrame(fr)
	}
	// Destroy the locals to avoid accidental use after return.
	for i := range fn.Locals {
		fr.locals[i] = bad{}
	}
	return fr.result
}

// runFrame executes SSA instructions starting at fr.block and
// continuing until a return, a panic, or a recovered panic.
//
// After a panic, runFrame panics.
//
// After a normal return, fr.result contains the result of the call
// and fr.block is nil.
//
// A recovered panic in a function without named return parameters
// (NRPs) becomes a normal return of the zero value of the function's
// result type.
//
// After a recovered panic in a function with NRPs, fr.result is
// undefined and fr.block contains the block at which to resume
// control.
func runFrame(fr *frame) {
	defer func() {
		if fr.block == nil {
			return // normal return
		}
		r := recover()
		switch r.(type) {
		case pathAbort, pathKill:
			panic(r) // engine aborts are not target panics
		}
		if fr.i.p.dead {
			panic(pathKill{})
		}
		fr.panicking = true
		fr.panic = r
		if fr.i.mode&EnableTracing != 0 {
			fmt.Fprintf(os.Stderr, "Panicking: %T %v.\n", fr.panic, fr.panic)
		}
		fr.runDefers()
		fr.block = fr.fn.Recover
	}()

	for {
		if fr.i.mode&EnableTracing != 0 {
			fmt.Fprintf(os.Stderr, ".%s:\n", fr.block)
		}

		nonPhis := executePhis(fr)
		for _, instr := range nonPhis {
			if fr.i.mode&EnableTracing != 0 {
				if v, ok := instr.(ssa.Value); ok {
					fmt.Fprintln(os.Stderr, "\t", v.Name(), "=", instr)
				} else {
					fmt.Fprintln(os.Stderr, "\t", instr)
				}
			}
			fr.i.lastInstr, fr.i.lastFn = instr, fr.fn
			fr.i.p.steps++
			if fr.i.p.steps > fr.i.p.ex.cfg.MaxSteps {
				panic(pathAbort{"budget", "step budget exhausted" + fr.i.where()})
			}
			if visitInstr(fr, instr) == kReturn {
				return
			}
			// Inv: kNext (continue) or kJump (last instr)
		}
	}
}

// executePhis executes the phi-nodes at the start of the current
// block and returns the non-phi instructions.
func executePhis(fr *frame) []ssa.Instruction {
	firstNonPhi := -1
	for i, instr := range fr.block.Instrs {
		if _, ok := instr.(*ssa.Phi); !ok {
			firstNonPhi = i
			break
		}
	}
	// Inv: 0 <= firstNonPhi; every block contains a non-phi.

	nonPhis := fr.block.Instrs[firstNonPhi:]
	if firstNonPhi > 0 {
		phis := fr.block.Instrs[:firstNonPhi]
		// Execute parallel assignment of phis.
		//
		// See "the swap problem" in Briggs et al's "Practical Improvements
		// to the Construction and Destruction of SSA Form" for discussion.
		predIndex := slices.Index(fr.block.Preds, fr.prevBlock)
		fr.phitemps = fr.phitemps[:0]
		for _, phi := range phis {
			phi := phi.(*ssa.Phi)
			if fr.i.mode&EnableTracing != 0 {
				fmt.Fprintln(os.Stderr, "\t", phi.Name(), "=", phi)
			}
			fr.phitemps = append(fr.phitemps, fr.get(phi.Edges[predIndex]))
		}
		for i, phi := range phis {
			fr.env[phi.(*ssa.Phi)] = fr.phitemps[i]
		}
	}
	return nonPhis
}

// doRecover implements the recover() built-in.
func doRecover(caller *frame) value {
	// recover() must be exactly one level beneath the deferred
	// function (two levels beneath the panicking function) to
	// have any effect.  Thus we ignore both "defer recover()" and
	// "defer f() -> g() -> recover()".
	if caller.i.mode&DisableRecover == 0 &&
		caller != nil && !caller.panicking &&
		caller.caller != nil && caller.caller.panicking {
		caller.caller.panicking = false
		p := caller.caller.panic
		caller.caller.panic = nil

		// TODO(adonovan): support runtime.Goexit.
		switch p := p.(type) {
		case targetPanic:
			// The target program explicitly called panic().
			if msg, ok := p.v.(string); ok {
				return iface{caller.i.runtimeErrorString, msg} // engine-raised runtime error
			}
			return p.v
		case runtime.Error:
			// The interpreter encountered a runtime error.
			return iface{caller.i.runtimeErrorString, p.Error()}
		case string:
			// The interpreter explicitly called panic().
			return iface{caller.i.runtimeErrorString, p}
		default:
			panic(fmt.Sprintf("unexpected panic type %T in target call to recover()", p))
		}
	}
	return iface{}
}


// stubDecline is returned by a stub that only handles some argument shapes.
type stubDecline struct{}
