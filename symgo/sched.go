package main

// Cooperative scheduler: interpreted goroutines are real goroutines passing a baton;
// every synchronisation operation is a schedule point whose outcome is a decision.

import (
	"fmt"
	"go/types"
	"os"
	"sync/atomic"
)

var schedTrace = os.Getenv("SYMGO_SCHEDTRACE") != ""

const (
	tRunnable = iota
	tBlocked
	tDone
)

type thread struct {
	id     int
	name   string
	resume chan struct{}
	state  int
	pend   *pendingOp
	wmutex *smutex
	wwg    *swg
	daemon bool
	reason string
	cond   func() bool // blocked until cond() holds
	wantMutex *smutex  // stopped right before acquiring this mutex
	vc        vclock
}

type schan struct {
	id     int
	cap    int
	buf    []value
	closed bool
	// environment-fed timer channel: a tick may be delivered whenever a receiver asks, up to ticksLeft
	ticker    bool
	ticksLeft int
	stopped   bool
	bufVC     []vclock // clocks of the buffered messages
	closeVC   vclock
}

type chanCase struct {
	ch   *schan
	send bool
	val  value
	vc   vclock // sender's clock at the send (race detection)
}

type pendingOp struct {
	cases       []chanCase
	done        bool
	chosen      int
	recv        value
	ok          bool
	panicClosed bool
}

type smutex struct {
	locked  bool
	owner   *thread
	waiters []*thread
}

type swg struct {
	n       int
	waiters []*thread
}

type pathKill struct{}

func (p *pathCtx) newThread(name string, daemon bool) *thread {
	t := &thread{id: len(p.threads), name: name, resume: make(chan struct{}, 1), daemon: daemon}
	p.threads = append(p.threads, t)
	return t
}

// spawn starts body as a new interpreted goroutine; it does not run until scheduled.
func (p *pathCtx) spawn(name string, daemon bool, body func()) *thread {
	t := p.newThread(name, daemon)
	p.raceFork(t)
	go func() {
		<-t.resume
		if p.dead {
			return
		}
		defer p.threadExit(t)
		body()
	}()
	return t
}

// threadExit is deferred at the top of every thread goroutine.
func (p *pathCtx) threadExit(t *thread) {
	r := recover()
	if p.dead {
		return
	}
	t.state = tDone
	if r != nil {
		switch x := r.(type) {
		case pathKill:
			return
		case pathAbort:
			p.finish(x)
			return
		case targetPanic:
			p.targetPanicOutcome(fmt.Sprintf("[%s] %s%s", t.name, toString(x.v), p.interp.where()))
			p.finish(pathAbort{"stop", "target panic"})
			return
		case exitPanic:
			p.finish(pathAbort{"done", "os.Exit"})
			return
		default:
			msg := fmt.Sprint(r)
			if e, ok := r.(error); ok {
				msg = e.Error()
			}
			if isRuntimePanicMsg(msg) {
				p.targetPanicOutcome(fmt.Sprintf("[%s] %s%s", t.name, msg, p.interp.where()))
				p.finish(pathAbort{"stop", "target panic"})
				return
			}
			p.finish(pathAbort{"unsupported", "interpreter: " + msg + p.interp.where()})
			return
		}
	}
	if t.id == 0 {
		p.finish(pathAbort{"done", ""})
		return
	}
	// a non-main thread finished: hand the baton on
	p.reschedule()
}

func isRuntimePanicMsg(msg string) bool {
	for _, s := range []string{"runtime error:", "method invoked on nil interface", "nil pointer", "interface conversion:", "send on closed channel", "close of closed channel", "close of nil channel", "assignment to entry in nil map", "value method"} {
		if len(msg) >= len(s) && contains(msg, s) {
			return true
		}
	}
	return false
}

func contains(s, sub string) bool {
	for i := 0; i+len(sub) <= len(s); i++ {
		if s[i:i+len(sub)] == sub {
			return true
		}
	}
	return false
}

func (p *pathCtx) finish(a pathAbort) {
	select {
	case p.finished <- a:
	default:
	}
}

func (p *pathCtx) killThreads() {
	p.dead = true
	for _, t := range p.threads {
		select {
		case t.resume <- struct{}{}:
		default:
		}
	}
}

// wait parks the current goroutine until it is handed the baton.
func (p *pathCtx) park(t *thread) {
	<-t.resume
	if p.dead {
		panic(pathKill{})
	}
}

// reschedule picks the next thread to run. The caller is p.cur (in any state).
func (p *pathCtx) reschedule() {
	cur := p.cur
	for _, t := range p.threads {
		if t.state == tBlocked && t.cond != nil && t.cond() {
			t.state = tRunnable
		}
	}
	var runnable []*thread
	if cur.state == tRunnable {
		runnable = append(runnable, cur)
	}
	var futile []*thread
	for _, t := range p.threads {
		if t != cur && t.state == tRunnable {
			// a thread stopped right before acquiring a mutex that is currently held would only
			// block: scheduling it now is equivalent to not scheduling it
			if t.wantMutex != nil && t.wantMutex.locked {
				futile = append(futile, t)
				continue
			}
			runnable = append(runnable, t)
		}
	}
	if len(runnable) == 0 {
		runnable = futile
	}
	if len(runnable) == 0 {
		// nothing can run
		var stuck []string
		for _, t := range p.threads {
			if t.state == tBlocked && !t.daemon {
				stuck = append(stuck, t.name+":"+t.reason)
			}
		}
		p.deadlockOutcome(stuck)
		if cur.state != tDone {
			panic(pathKill{})
		}
		return
	}
	var next *thread
	if len(runnable) == 1 {
		next = runnable[0]
	} else if p.ex.cfg.Preempt == -2 {
		// one canonical schedule: never preempt, and when the current thread cannot continue run the
		// runnable thread with the lowest id
		next = runnable[0]
	} else if cur.state == tRunnable && p.ex.cfg.Preempt >= 0 && p.preemptions >= p.ex.cfg.Preempt {
		next = cur
	} else if p.ex.cfg.Delays >= 0 && p.delays >= p.ex.cfg.Delays {
		// delay bound used up: the canonical choice (continue, else the lowest thread id)
		next = runnable[0]
	} else {
		k := p.choose(len(runnable), "sched")
		next = runnable[k]
		if k > 0 {
			p.delays++
		}
		if cur.state == tRunnable && next != cur {
			p.preemptions++
		}
	}
	if next == cur {
		return
	}
	if schedTrace {
		fmt.Fprintf(os.Stderr, "SCHED %s(%s) -> %s%s\n", cur.name, []string{"runnable", "blocked:" + cur.reason, "done"}[cur.state], next.name, p.interp.where())
	}
	p.cur = next
	next.resume <- struct{}{}
	if cur.state != tDone {
		p.park(cur)
	}
}

func (p *pathCtx) deadlockOutcome(stuck []string) {
	tickHang := false
	// a goroutine waiting for a tick beyond the tick bound is a truncated exploration, not a hang
	for _, t := range p.threads {
		if t.state == tBlocked && t.pend != nil {
			for _, c := range t.pend.cases {
				if c.ch != nil && c.ch.ticker && !c.ch.stopped && c.ch.ticksLeft <= 0 {
					if p.ex.cfg.Params["TICKHANG"] == 1 {
						// the plan declares the program's timers periodic housekeeping: a state in which
						// nothing but further ticks can happen, after the tick bound, is a hang
						tickHang = true
						continue
					}
					atomic.AddInt64(&p.ex.truncated, 1)
					p.finish(pathAbort{"stop", fmt.Sprintf("tick bound reached; blocked: %v", stuck)})
					return
				}
			}
		}
	}
	site := "nodeadlock"
	st := p.ex.site(site)
	st.Evaluated++
	st.Symbolic++
	r, m := p.checkModel(p.ts.True, p.ex.cfg.AssertMs)
	if r == Sat {
		st.Violated++
		p.notes = append(p.notes, fmt.Sprintf("blocked forever: %v", stuck))
		if tickHang {
			p.notes = append(p.notes, "only periodic timer ticks remain possible (tick bound delivered)")
		}
		p.violation(site, fmt.Sprintf("deadlock/hang: all goroutines blocked: %v", stuck), m)
	} else if r == Unknown {
		st.Unknown++
	}
	p.finish(pathAbort{"stop", "deadlock"})
}

// yieldPoint is a schedule point at which the current (runnable) thread may be preempted.
func (p *pathCtx) yieldPoint() {
	if len(p.threads) > 1 {
		p.reschedule()
	}
}

func (p *pathCtx) blockCurrent(reason string) {
	cur := p.cur
	cur.state = tBlocked
	cur.reason = reason
	p.reschedule()
}

// ---------- channels ----------

func (p *pathCtx) makeChan(capacity int) *schan {
	p.chanSeq++
	return &schan{id: p.chanSeq, cap: capacity}
}

func (p *pathCtx) partner(c *schan, wantSend bool) (*thread, int) {
	for _, t := range p.blockedOrder {
		if t.state != tBlocked || t.pend == nil || t.pend.done || t == p.cur {
			continue
		}
		for i, cs := range t.pend.cases {
			if cs.ch == c && cs.send == wantSend {
				return t, i
			}
		}
	}
	return nil, -1
}

func (p *pathCtx) caseReady(c chanCase) bool {
	if c.ch == nil {
		return false
	}
	if c.send {
		if c.ch.closed {
			return true
		}
		if t, _ := p.partner(c.ch, false); t != nil {
			return true
		}
		return len(c.ch.buf) < c.ch.cap
	}
	if len(c.ch.buf) > 0 || c.ch.closed {
		return true
	}
	if c.ch.ticker {
		return !c.ch.stopped && c.ch.ticksLeft > 0
	}
	t, _ := p.partner(c.ch, true)
	return t != nil
}

func (p *pathCtx) complete(t *thread, idx int, v value, ok bool) {
	t.pend.done = true
	t.pend.chosen = idx
	t.pend.recv = v
	t.pend.ok = ok
	t.state = tRunnable
	p.unblockOrder(t)
}

func (p *pathCtx) unblockOrder(t *thread) {
	for i, x := range p.blockedOrder {
		if x == t {
			p.blockedOrder = append(p.blockedOrder[:i:i], p.blockedOrder[i+1:]...)
			return
		}
	}
}

func (p *pathCtx) perform(c chanCase) (value, bool) {
	ch := c.ch
	if c.send {
		if ch.closed {
			panic(targetPanic{"send on closed channel"})
		}
		if t, i := p.partner(ch, false); t != nil && len(ch.buf) == 0 {
			if p.raceOn() {
				// rendezvous: the blocked receiver learns the sender's clock, and (unbuffered) vice versa
				mine := vcCopy(p.tvc(p.cur))
				if ch.cap == 0 {
					p.cur.vc = vcJoin(p.tvc(p.cur), p.tvc(t))
				}
				t.vc = vcJoin(p.tvc(t), mine)
				p.tick(p.cur)
			}
			p.complete(t, i, c.val, true)
			return nil, false
		}
		ch.buf = append(ch.buf, c.val)
		if p.raceOn() {
			ch.bufVC = append(ch.bufVC, vcCopy(p.tvc(p.cur)))
			p.tick(p.cur)
		}
		return nil, false
	}
	if ch.ticker && len(ch.buf) == 0 && !ch.closed {
		ch.ticksLeft--
		return p.timeNow(), true
	}
	if len(ch.buf) > 0 {
		v := ch.buf[0]
		ch.buf = append([]value{}, ch.buf[1:]...)
		if p.raceOn() && len(ch.bufVC) > 0 {
			p.cur.vc = vcJoin(p.tvc(p.cur), ch.bufVC[0])
			ch.bufVC = append([]vclock{}, ch.bufVC[1:]...)
		}
		if t, i := p.partner(ch, true); t != nil {
			ch.buf = append(ch.buf, t.pend.cases[i].val)
			if p.raceOn() {
				ch.bufVC = append(ch.bufVC, vcCopy(p.tvc(t)))
				p.tick(t)
			}
			p.complete(t, i, nil, false)
		}
		return v, true
	}
	if t, i := p.partner(ch, true); t != nil {
		v := t.pend.cases[i].val
		if p.raceOn() {
			mine := vcCopy(p.tvc(p.cur))
			p.cur.vc = vcJoin(p.tvc(p.cur), p.tvc(t))
			if ch.cap == 0 {
				t.vc = vcJoin(p.tvc(t), mine)
			}
			p.tick(t)
		}
		p.complete(t, i, nil, false)
		return v, true
	}
	if ch.closed {
		if p.raceOn() && ch.closeVC != nil {
			p.cur.vc = vcJoin(p.tvc(p.cur), ch.closeVC)
		}
		return nil, false
	}
	panic("perform: case not ready")
}

// chanOp executes a (possibly multi-case) channel operation. Returns the chosen case index
// (-1 for default), and for receives the value (nil = zero) and ok.
func (p *pathCtx) chanOp(cases []chanCase, hasDefault bool, reason string) (int, value, bool) {
	p.yieldPoint()
	var ready []int
	for i, c := range cases {
		if p.caseReady(c) {
			ready = append(ready, i)
		}
	}
	if len(ready) > 0 {
		k := 0
		if len(ready) > 1 {
			k = p.choose(len(ready), "select")
		}
		if schedTrace {
			c := cases[ready[k]]
			fmt.Fprintf(os.Stderr, "CHAN %s: case %d of %d ready (send=%v chan#%d cap=%d len=%d)%s\n", p.cur.name, ready[k], len(cases), c.send, c.ch.id, c.ch.cap, len(c.ch.buf), p.interp.where())
		}
		v, ok := p.perform(cases[ready[k]])
		return ready[k], v, ok
	}
	if hasDefault {
		return -1, nil, false
	}
	cur := p.cur
	cur.pend = &pendingOp{cases: cases}
	p.blockedOrder = append(p.blockedOrder, cur)
	p.blockCurrent(reason)
	pend := cur.pend
	cur.pend = nil
	if pend.panicClosed {
		panic(targetPanic{"send on closed channel"})
	}
	return pend.chosen, pend.recv, pend.ok
}

func (p *pathCtx) closeChan(ch *schan) {
	if ch == nil {
		panic(targetPanic{"close of nil channel"})
	}
	if ch.closed {
		panic(targetPanic{"close of closed channel"})
	}
	p.yieldPoint()
	ch.closed = true
	if p.raceOn() {
		ch.closeVC = vcCopy(p.tvc(p.cur))
		p.tick(p.cur)
	}
	for {
		t, i := p.partner(ch, false)
		if t == nil {
			break
		}
		if p.raceOn() {
			t.vc = vcJoin(p.tvc(t), ch.closeVC)
		}
		p.complete(t, i, nil, false)
	}
	for {
		t, i := p.partner(ch, true)
		if t == nil {
			break
		}
		p.complete(t, i, nil, false)
		t.pend.panicClosed = true
	}
}

// ---------- mutex / waitgroup ----------

func (p *pathCtx) mutexOf(addr *value) *smutex {
	m := p.mutexes[addr]
	if m == nil {
		m = &smutex{}
		p.mutexes[addr] = m
	}
	return m
}

func (p *pathCtx) lock(addr *value) {
	m := p.mutexOf(addr)
	p.cur.wantMutex = m
	p.yieldPoint()
	p.cur.wantMutex = nil
	for m.locked {
		cur := p.cur
		m.waiters = append(m.waiters, cur)
		cur.wmutex = m
		p.blockCurrent("mutex")
		cur.wmutex = nil
	}
	m.locked = true
	m.owner = p.cur
	p.raceAcquire(m)
}

func (p *pathCtx) tryLock(addr *value) bool {
	m := p.mutexOf(addr)
	p.yieldPoint()
	if m.locked {
		return false
	}
	m.locked = true
	m.owner = p.cur
	p.raceAcquire(m)
	return true
}

func (p *pathCtx) unlock(addr *value) {
	m := p.mutexOf(addr)
	if !m.locked {
		panic(targetPanic{"sync: unlock of unlocked mutex"})
	}
	p.raceRelease(m)
	m.locked = false
	m.owner = nil
	for _, t := range m.waiters {
		if t.state == tBlocked {
			t.state = tRunnable
		}
	}
	m.waiters = nil
}

func (p *pathCtx) wgOf(addr *value) *swg {
	w := p.waitgroups[addr]
	if w == nil {
		w = &swg{}
		p.waitgroups[addr] = w
	}
	return w
}

func (p *pathCtx) wgAdd(addr *value, d int) {
	w := p.wgOf(addr)
	if d < 0 {
		p.raceRelease(w)
	}
	w.n += d
	if w.n < 0 {
		panic(targetPanic{"sync: negative WaitGroup counter"})
	}
	if w.n == 0 {
		for _, t := range w.waiters {
			if t.state == tBlocked {
				t.state = tRunnable
			}
		}
		w.waiters = nil
	}
}

func (p *pathCtx) wgWait(addr *value) {
	w := p.wgOf(addr)
	p.yieldPoint()
	for w.n > 0 {
		w.waiters = append(w.waiters, p.cur)
		p.blockCurrent("waitgroup")
	}
	p.raceAcquire(w)
}

// zeroOfChanElem returns the zero value for the element type of a channel type.
func zeroOfChanElem(t types.Type) value {
	return zero(t.Underlying().(*types.Chan).Elem())
}
