package main

// Rewritten operators of the interpreter that must understand symbolic values.

import (
	"bytes"
	"fmt"
	"go/token"
	"go/types"
	"os"
	"strings"

	"golang.org/x/tools/go/ssa"
)

// concInt returns the concrete int64 of an integer value, forking if it is symbolic.
func (i *interpreter) concInt(v value, why string) int64 {
	if s, ok := v.(symInt); ok {
		u := i.p.concretize(s.t, why)
		if kindSigned(s.k) {
			return signExt(u, s.t.sort)
		}
		return int64(u)
	}
	return asInt64(v)
}

// slice returns x[lo:hi:max].  Any of lo, hi and max may be nil.
func slice(i *interpreter, x, lo, hi, max value) value {
	switch x := x.(type) {
	case symStr:
		return i.p.strSlice(x, lo, hi)
	case string:
		if isSym(lo) || isSym(hi) {
			return i.p.strSlice(i.p.strOf(x), lo, hi)
		}
	}
	var Len, Cap int
	switch x := x.(type) {
	case string:
		Len = len(x)
	case []value:
		Len = len(x)
		Cap = cap(x)
	case *value: // *array
		a := (*x).(array)
		Len = len(a)
		Cap = cap(a)
	}

	l := int64(0)
	if lo != nil {
		l = i.concInt(lo, "slice-lo")
	}

	h := int64(Len)
	if hi != nil {
		h = i.concInt(hi, "slice-hi")
	}

	m := int64(Cap)
	if max != nil {
		m = i.concInt(max, "slice-max")
	}

	switch x := x.(type) {
	case string:
		if l < 0 || h < l || h > int64(len(x)) {
			panic(targetPanic{"runtime error: slice bounds out of range"})
		}
		return x[l:h]
	case []value:
		if l < 0 || h < l || m < h || m > int64(cap(x)) {
			panic(targetPanic{"runtime error: slice bounds out of range"})
		}
		return x[l:h:m]
	case *value: // *array
		a := (*x).(array)
		if l < 0 || h < l || m < h || m > int64(cap(a)) {
			panic(targetPanic{"runtime error: slice bounds out of range"})
		}
		return []value(a)[l:h:m]
	}
	panic(fmt.Sprintf("slice: unexpected X type: %T", x))
}

// lookup returns x[idx] where x is a map.
func lookup(i *interpreter, instr *ssa.Lookup, x, idx value) value {
	switch x := x.(type) {
	case *amap:
		var v value
		ok := false
		if e := i.p.mapFind(x, idx); e != nil {
			v, ok = e.val, true
		}
		if !ok {
			v = zero(instr.X.Type().Underlying().(*types.Map).Elem())
		}
		if instr.CommaOk {
			v = tuple{v, ok}
		}
		return v
	}
	panic(fmt.Sprintf("unexpected x type in Lookup: %T", x))
}

// callBuiltin interprets a call to builtin fn with arguments args,
// returning its result.
func callBuiltin(caller *frame, callpos token.Pos, fn *ssa.Builtin, args []value) value {
	i := caller.i
	switch fn.Name() {
	case "append":
		if len(args) == 1 {
			return args[0]
		}
		switch s := args[1].(type) {
		case string:
			arg0 := args[0].([]value)
			for k := 0; k < len(s); k++ {
				arg0 = append(arg0, s[k])
			}
			return arg0
		case symStr:
			arg0 := args[0].([]value)
			bs := conv(i, types.NewSlice(types.Typ[types.Byte]), types.Typ[types.String], s).([]value)
			return append(arg0, bs...)
		}
		// append([]T, ...[]T) []T
		return append(args[0].([]value), args[1].([]value)...)

	case "copy": // copy([]T, []T) int or copy([]byte, string) int
		src := args[1]
		if isStringVal(src) {
			src = conv(i, types.NewSlice(types.Typ[types.Byte]), types.Typ[types.String], src)
		}
		return copy(args[0].([]value), src.([]value))

	case "close": // close(chan T)
		ch, _ := args[0].(*schan)
		i.p.closeChan(ch)
		return nil

	case "delete": // delete(map[K]value, K)
		switch m := args[0].(type) {
		case *amap:
			i.p.mapDelete(m, args[1])
		default:
			panic(fmt.Sprintf("illegal map type: %T", m))
		}
		return nil

	case "print", "println": // print(any, ...)
		ln := fn.Name() == "println"
		var buf bytes.Buffer
		for k, arg := range args {
			if k > 0 && ln {
				buf.WriteRune(' ')
			}
			buf.WriteString(toString(arg))
		}
		if ln {
			buf.WriteRune('\n')
		}
		os.Stderr.Write(buf.Bytes())
		return nil

	case "len":
		switch x := args[0].(type) {
		case string:
			return len(x)
		case symStr:
			return i.p.strLen(x)
		case array:
			return len(x)
		case *value:
			return len((*x).(array))
		case []value:
			return len(x)
		case *amap:
			return x.length()
		case *schan:
			if x == nil {
				return 0
			}
			return len(x.buf)
		default:
			panic(fmt.Sprintf("len: illegal operand: %T", x))
		}

	case "cap":
		switch x := args[0].(type) {
		case array:
			return cap(x)
		case *value:
			return cap((*x).(array))
		case []value:
			return cap(x)
		case *schan:
			if x == nil {
				return 0
			}
			return x.cap
		default:
			panic(fmt.Sprintf("cap: illegal operand: %T", x))
		}

	case "min":
		return foldLeft(func(a, b value) value { return minmax(i, token.LSS, a, b) }, args)
	case "max":
		return foldLeft(func(a, b value) value { return minmax(i, token.GTR, a, b) }, args)

	case "panic":
		// ssa.Panic handles most cases; this is only for "go
		// panic" or "defer panic".
		panic(targetPanic{args[0]})

	case "recover":
		return doRecover(caller)

	case "ssa:wrapnilchk":
		recv := args[0]
		if pv, ok := recv.(*value); ok && pv == nil {
			recvType := args[1]
			methodName := args[2]
			panic(targetPanic{fmt.Sprintf("value method (%s).%s called using nil *%s pointer",
				recvType, methodName, recvType)})
		}
		return recv

	case "ssa:deferstack":
		return &caller.defers
	}

	panic("unknown built-in: " + fn.Name())
}

func minmax(i *interpreter, op token.Token, x, y value) value {
	r := binop(i, op, nil, y, x)
	switch b := r.(type) {
	case bool:
		if b {
			return y
		}
		return x
	case symBool:
		if i.p.branch(b.t, "minmax") {
			return y
		}
		return x
	}
	panic("minmax")
}

type symStrIter struct {
	p  *pathCtx
	s  symStr
	bs []*Term
	n  int
	i  int
}

func (it *symStrIter) next() tuple {
	if it.i >= it.n {
		return tuple{false, nil, nil}
	}
	// ASCII fast path: byte < 0x80 is a decision; otherwise concretise up to 4 bytes
	b := it.bs[it.i]
	ts := it.p.ts
	if it.p.branch(ts.Cmp(OpBvUlt, b, ts.BV(0x80, 8)), "utf8-ascii") {
		r := it.p.mkInt(ts.Zext(b, 24), types.Int32)
		idx := it.i
		it.i++
		return tuple{true, idx, r}
	}
	// multi-byte: concretise the sequence
	var raw []byte
	for k := it.i; k < it.n && k < it.i+4; k++ {
		raw = append(raw, byte(it.p.concretize(it.bs[k], "utf8-byte")))
	}
	r, w := decodeRune(raw)
	idx := it.i
	it.i += w
	return tuple{true, idx, r}
}

func decodeRune(b []byte) (rune, int) {
	for _, r := range string(b) {
		n := len(string(r))
		if r == 0xFFFD {
			// distinguish genuine U+FFFD (3 bytes) from invalid encoding (1 byte)
			if len(b) >= 3 && b[0] == 0xEF && b[1] == 0xBF && b[2] == 0xBD {
				return r, 3
			}
			return r, 1
		}
		return r, n
	}
	return 0xFFFD, 1
}

func rangeIter(i *interpreter, x value, t types.Type) iter {
	switch x := x.(type) {
	case *amap:
		return i.p.mapRange(x)
	case string:
		return &stringIter{Reader: strings.NewReader(x)}
	case symStr:
		n := int(i.p.concretize(x.n, "range-str-len"))
		return &symStrIter{p: i.p, s: x, bs: i.p.viewBytes(x), n: n}
	}
	panic(fmt.Sprintf("cannot range over %T", x))
}

func fieldAddr(fr *frame, instr *ssa.FieldAddr) value {
	pv := fr.get(instr.X).(*value)
	if pv == nil {
		panic(targetPanic{"runtime error: invalid memory address or nil pointer dereference"})
	}
	return &(*pv).(structure)[instr.Field]
}
