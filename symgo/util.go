package main

import (
	"fmt"
	"go/types"
)

// mustDeref returns the type of the variable pointed to by t.
func mustDeref(t types.Type) types.Type {
	if ptr, ok := t.Underlying().(*types.Pointer); ok {
		return ptr.Elem()
	}
	panic(fmt.Sprintf("%v is not a pointer", t))
}
