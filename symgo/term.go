package main

// Term DAG over QF_BV with hash-consing and local simplification.
// Sorts: 0 = Bool, n>0 = (_ BitVec n), n <= 64.

import (
	"fmt"
	"strings"
)

type Sort int

const BoolSort Sort = 0

type Op uint8

const (
	OpConst Op = iota
	OpVar
	OpNot
	OpAnd
	OpOr
	OpXorB
	OpEq
	OpIte
	OpBvAdd
	OpBvSub
	OpBvMul
	OpBvUDiv
	OpBvURem
	OpBvSDiv
	OpBvSRem
	OpBvAnd
	OpBvOr
	OpBvXor
	OpBvNot
	OpBvNeg
	OpBvShl
	OpBvLshr
	OpBvAshr
	OpBvUlt
	OpBvUle
	OpBvSlt
	OpBvSle
	OpExtract // a=hi b=lo
	OpZext    // a=extra bits
	OpSext    // a=extra bits
	OpConcat
)

var opNames = map[Op]string{
	OpNot: "not", OpAnd: "and", OpOr: "or", OpXorB: "xor", OpEq: "=", OpIte: "ite",
	OpBvAdd: "bvadd", OpBvSub: "bvsub", OpBvMul: "bvmul", OpBvUDiv: "bvudiv", OpBvURem: "bvurem",
	OpBvSDiv: "bvsdiv", OpBvSRem: "bvsrem", OpBvAnd: "bvand", OpBvOr: "bvor", OpBvXor: "bvxor",
	OpBvNot: "bvnot", OpBvNeg: "bvneg", OpBvShl: "bvshl", OpBvLshr: "bvlshr", OpBvAshr: "bvashr",
	OpBvUlt: "bvult", OpBvUle: "bvule", OpBvSlt: "bvslt", OpBvSle: "bvsle", OpConcat: "concat",
}

type Term struct {
	id   int
	op   Op
	sort Sort
	args [3]*Term
	n    int    // number of args
	val  uint64 // const value
	a, b int    // extract hi/lo, extend amount
	name string // var name
}

type termKey struct {
	op         Op
	sort       Sort
	a0, a1, a2 int
	val        uint64
	a, b       int
	name       string
}

type TermStore struct {
	tab   map[termKey]*Term
	next  int
	True  *Term
	False *Term
	vars  []*Term
}

func NewTermStore() *TermStore {
	ts := &TermStore{tab: make(map[termKey]*Term, 1<<12)}
	ts.True = ts.mk(&Term{op: OpConst, sort: BoolSort, val: 1})
	ts.False = ts.mk(&Term{op: OpConst, sort: BoolSort, val: 0})
	return ts
}

func (ts *TermStore) mk(t *Term) *Term {
	k := termKey{op: t.op, sort: t.sort, val: t.val, a: t.a, b: t.b, name: t.name, a0: -1, a1: -1, a2: -1}
	if t.n > 0 {
		k.a0 = t.args[0].id
	}
	if t.n > 1 {
		k.a1 = t.args[1].id
	}
	if t.n > 2 {
		k.a2 = t.args[2].id
	}
	if e, ok := ts.tab[k]; ok {
		return e
	}
	t.id = ts.next
	ts.next++
	ts.tab[k] = t
	if t.op == OpVar {
		ts.vars = append(ts.vars, t)
	}
	return t
}

func mask(w Sort) uint64 {
	if w >= 64 {
		return ^uint64(0)
	}
	return (uint64(1) << uint(w)) - 1
}

func (t *Term) IsConst() bool { return t.op == OpConst }
func (t *Term) IsTrue() bool  { return t.op == OpConst && t.sort == BoolSort && t.val == 1 }
func (t *Term) IsFalse() bool { return t.op == OpConst && t.sort == BoolSort && t.val == 0 }

func signExt(v uint64, w Sort) int64 {
	if w >= 64 {
		return int64(v)
	}
	sh := 64 - uint(w)
	return int64(v<<sh) >> sh
}

func (ts *TermStore) BV(v uint64, w Sort) *Term {
	if w <= 0 {
		panic("BV: bad width")
	}
	return ts.mk(&Term{op: OpConst, sort: w, val: v & mask(w)})
}

func (ts *TermStore) Bool(b bool) *Term {
	if b {
		return ts.True
	}
	return ts.False
}

func (ts *TermStore) Var(name string, s Sort) *Term {
	return ts.mk(&Term{op: OpVar, sort: s, name: name})
}

func (ts *TermStore) un(op Op, s Sort, x *Term) *Term {
	t := &Term{op: op, sort: s, n: 1}
	t.args[0] = x
	return ts.mk(t)
}
func (ts *TermStore) bin(op Op, s Sort, x, y *Term) *Term {
	t := &Term{op: op, sort: s, n: 2}
	t.args[0], t.args[1] = x, y
	return ts.mk(t)
}

func (ts *TermStore) Not(x *Term) *Term {
	if x.sort != BoolSort {
		panic("Not: non-bool")
	}
	if x.IsConst() {
		return ts.Bool(x.val == 0)
	}
	if x.op == OpNot {
		return x.args[0]
	}
	return ts.un(OpNot, BoolSort, x)
}

func (ts *TermStore) And(x, y *Term) *Term {
	if x.IsFalse() || y.IsFalse() {
		return ts.False
	}
	if x.IsTrue() {
		return y
	}
	if y.IsTrue() {
		return x
	}
	if x == y {
		return x
	}
	if (x.op == OpNot && x.args[0] == y) || (y.op == OpNot && y.args[0] == x) {
		return ts.False
	}
	if x.id > y.id {
		x, y = y, x
	}
	return ts.bin(OpAnd, BoolSort, x, y)
}

func (ts *TermStore) Or(x, y *Term) *Term {
	if x.IsTrue() || y.IsTrue() {
		return ts.True
	}
	if x.IsFalse() {
		return y
	}
	if y.IsFalse() {
		return x
	}
	if x == y {
		return x
	}
	if (x.op == OpNot && x.args[0] == y) || (y.op == OpNot && y.args[0] == x) {
		return ts.True
	}
	if x.id > y.id {
		x, y = y, x
	}
	return ts.bin(OpOr, BoolSort, x, y)
}

func (ts *TermStore) AndN(xs ...*Term) *Term {
	r := ts.True
	for _, x := range xs {
		r = ts.And(r, x)
	}
	return r
}
func (ts *TermStore) OrN(xs ...*Term) *Term {
	r := ts.False
	for _, x := range xs {
		r = ts.Or(r, x)
	}
	return r
}
func (ts *TermStore) Implies(x, y *Term) *Term { return ts.Or(ts.Not(x), y) }

func (ts *TermStore) Eq(x, y *Term) *Term {
	if x.sort != y.sort {
		panic(fmt.Sprintf("Eq: sort mismatch %d vs %d", x.sort, y.sort))
	}
	if x == y {
		return ts.True
	}
	if x.IsConst() && y.IsConst() {
		return ts.Bool(x.val == y.val)
	}
	if x.sort == BoolSort {
		if x.IsTrue() {
			return y
		}
		if y.IsTrue() {
			return x
		}
		if x.IsFalse() {
			return ts.Not(y)
		}
		if y.IsFalse() {
			return ts.Not(x)
		}
	} else {
		// eq(ite(c,a,b),k) with const leaves
		if y.IsConst() && x.op == OpIte {
			return ts.eqIteConst(x, y, 0)
		}
		if x.IsConst() && y.op == OpIte {
			return ts.eqIteConst(y, x, 0)
		}
		// zext(a) == const
		if y.IsConst() && x.op == OpZext {
			inner := x.args[0]
			if y.val > mask(inner.sort) {
				return ts.False
			}
			return ts.Eq(inner, ts.BV(y.val, inner.sort))
		}
		if x.IsConst() && y.op == OpZext {
			return ts.Eq(y, x)
		}
		if x.op == OpZext && y.op == OpZext && x.args[0].sort == y.args[0].sort {
			return ts.Eq(x.args[0], y.args[0])
		}
	}
	if x.id > y.id {
		x, y = y, x
	}
	return ts.bin(OpEq, BoolSort, x, y)
}

// eqIteConst pushes an equality with a constant through an ite tree whose
// leaves are constants (typical for index/position chains).
func (ts *TermStore) eqIteConst(x, k *Term, depth int) *Term {
	if x.IsConst() {
		return ts.Bool(x.val == k.val)
	}
	if x.op == OpIte && depth < 200 && (x.args[1].IsConst() || x.args[2].IsConst()) {
		a, b := x.args[1], x.args[2]
		if a.IsConst() && b.IsConst() {
			ea, eb := a.val == k.val, b.val == k.val
			switch {
			case ea && eb:
				return ts.True
			case ea:
				return x.args[0]
			case eb:
				return ts.Not(x.args[0])
			default:
				return ts.False
			}
		}
		if a.IsConst() {
			if a.val == k.val {
				return ts.Or(x.args[0], ts.eqIteConst(b, k, depth+1))
			}
			return ts.And(ts.Not(x.args[0]), ts.eqIteConst(b, k, depth+1))
		}
		if b.val == k.val {
			return ts.Or(ts.Not(x.args[0]), ts.eqIteConst(a, k, depth+1))
		}
		return ts.And(x.args[0], ts.eqIteConst(a, k, depth+1))
	}
	if x.id > k.id {
		return ts.bin(OpEq, BoolSort, k, x)
	}
	return ts.bin(OpEq, BoolSort, x, k)
}

func (ts *TermStore) Ite(c, x, y *Term) *Term {
	if x.sort != y.sort {
		panic(fmt.Sprintf("Ite: sort mismatch %d vs %d", x.sort, y.sort))
	}
	if c.IsTrue() {
		return x
	}
	if c.IsFalse() {
		return y
	}
	if x == y {
		return x
	}
	if x.sort == BoolSort {
		if x.IsTrue() && y.IsFalse() {
			return c
		}
		if x.IsFalse() && y.IsTrue() {
			return ts.Not(c)
		}
		if x.IsTrue() {
			return ts.Or(c, y)
		}
		if x.IsFalse() {
			return ts.And(ts.Not(c), y)
		}
		if y.IsTrue() {
			return ts.Or(ts.Not(c), x)
		}
		if y.IsFalse() {
			return ts.And(c, x)
		}
	}
	if c.op == OpNot {
		c, x, y = c.args[0], y, x
	}
	t := &Term{op: OpIte, sort: x.sort, n: 3}
	t.args[0], t.args[1], t.args[2] = c, x, y
	return ts.mk(t)
}

func (ts *TermStore) BvBin(op Op, x, y *Term) *Term {
	if x.sort != y.sort || x.sort == BoolSort {
		panic(fmt.Sprintf("BvBin %s: sort mismatch %d vs %d", opNames[op], x.sort, y.sort))
	}
	w := x.sort
	if x.IsConst() && y.IsConst() {
		a, b := x.val, y.val
		var r uint64
		switch op {
		case OpBvAdd:
			r = a + b
		case OpBvSub:
			r = a - b
		case OpBvMul:
			r = a * b
		case OpBvUDiv:
			if b == 0 {
				r = mask(w)
			} else {
				r = a / b
			}
		case OpBvURem:
			if b == 0 {
				r = a
			} else {
				r = a % b
			}
		case OpBvSDiv:
			sa, sb := signExt(a, w), signExt(b, w)
			if sb == 0 {
				if sa < 0 {
					r = 1
				} else {
					r = mask(w)
				}
			} else if sb == -1 {
				r = uint64(-sa)
			} else {
				r = uint64(sa / sb)
			}
		case OpBvSRem:
			sa, sb := signExt(a, w), signExt(b, w)
			if sb == 0 {
				r = a
			} else if sb == -1 {
				r = 0
			} else {
				r = uint64(sa % sb)
			}
		case OpBvAnd:
			r = a & b
		case OpBvOr:
			r = a | b
		case OpBvXor:
			r = a ^ b
		case OpBvShl:
			if b >= uint64(w) {
				r = 0
			} else {
				r = a << b
			}
		case OpBvLshr:
			if b >= uint64(w) {
				r = 0
			} else {
				r = a >> b
			}
		case OpBvAshr:
			sa := signExt(a, w)
			if b >= uint64(w) {
				if sa < 0 {
					r = mask(w)
				} else {
					r = 0
				}
			} else {
				r = uint64(sa >> b)
			}
		default:
			panic("BvBin: bad op")
		}
		return ts.BV(r, w)
	}
	switch op {
	case OpBvAdd:
		if x.IsConst() && x.val == 0 {
			return y
		}
		if y.IsConst() && y.val == 0 {
			return x
		}
		// (x + c1) + c2
		if y.IsConst() && x.op == OpBvAdd && x.args[1].IsConst() {
			return ts.BvBin(OpBvAdd, x.args[0], ts.BV(x.args[1].val+y.val, w))
		}
		if x.IsConst() {
			x, y = y, x
		}
		// (a - b) + b = a
		if x.op == OpBvSub && x.args[1] == y {
			return x.args[0]
		}
		if y.op == OpBvSub && y.args[1] == x {
			return y.args[0]
		}
	case OpBvSub:
		if y.IsConst() && y.val == 0 {
			return x
		}
		if x == y {
			return ts.BV(0, w)
		}
		if y.IsConst() {
			return ts.BvBin(OpBvAdd, x, ts.BV(-y.val, w))
		}
		// (a + b) - a = b ; (a + b) - b = a
		if x.op == OpBvAdd {
			if x.args[0] == y {
				return x.args[1]
			}
			if x.args[1] == y {
				return x.args[0]
			}
		}
	case OpBvMul:
		if x.IsConst() {
			x, y = y, x
		}
		if y.IsConst() {
			if y.val == 0 {
				return y
			}
			if y.val == 1 {
				return x
			}
		}
	case OpBvAnd:
		if x == y {
			return x
		}
		if x.IsConst() {
			x, y = y, x
		}
		if y.IsConst() {
			if y.val == 0 {
				return y
			}
			if y.val == mask(w) {
				return x
			}
		}
	case OpBvOr:
		if x == y {
			return x
		}
		if x.IsConst() {
			x, y = y, x
		}
		if y.IsConst() {
			if y.val == 0 {
				return x
			}
			if y.val == mask(w) {
				return y
			}
		}
	case OpBvXor:
		if x == y {
			return ts.BV(0, w)
		}
		if y.IsConst() && y.val == 0 {
			return x
		}
		if x.IsConst() && x.val == 0 {
			return y
		}
	case OpBvShl, OpBvLshr, OpBvAshr:
		if y.IsConst() && y.val == 0 {
			return x
		}
	}
	return ts.bin(op, w, x, y)
}

func (ts *TermStore) BvUn(op Op, x *Term) *Term {
	w := x.sort
	if x.IsConst() {
		switch op {
		case OpBvNot:
			return ts.BV(^x.val, w)
		case OpBvNeg:
			return ts.BV(-x.val, w)
		}
	}
	return ts.un(op, w, x)
}

// range analysis helper: upper bound of an unsigned term if cheaply known.
func (ts *TermStore) ubound(x *Term, depth int) (uint64, bool) {
	switch x.op {
	case OpConst:
		return x.val, true
	case OpZext:
		if b, ok := ts.ubound(x.args[0], depth+1); ok {
			return b, true
		}
		return mask(x.args[0].sort), true
	case OpIte:
		if depth > 300 {
			return 0, false
		}
		a, ok1 := ts.ubound(x.args[1], depth+1)
		b, ok2 := ts.ubound(x.args[2], depth+1)
		if ok1 && ok2 {
			if a > b {
				return a, true
			}
			return b, true
		}
	}
	return 0, false
}

func (ts *TermStore) Cmp(op Op, x, y *Term) *Term {
	if x.sort != y.sort || x.sort == BoolSort {
		panic(fmt.Sprintf("Cmp %s: sort mismatch %d vs %d", opNames[op], x.sort, y.sort))
	}
	w := x.sort
	if x.IsConst() && y.IsConst() {
		switch op {
		case OpBvUlt:
			return ts.Bool(x.val < y.val)
		case OpBvUle:
			return ts.Bool(x.val <= y.val)
		case OpBvSlt:
			return ts.Bool(signExt(x.val, w) < signExt(y.val, w))
		case OpBvSle:
			return ts.Bool(signExt(x.val, w) <= signExt(y.val, w))
		}
	}
	if x == y {
		return ts.Bool(op == OpBvUle || op == OpBvSle)
	}
	// both are zero-extensions from the same narrower width: compare narrow, unsigned
	if x.op == OpZext && y.op == OpZext && x.args[0].sort == y.args[0].sort {
		nop := op
		if op == OpBvSlt {
			nop = OpBvUlt
		} else if op == OpBvSle {
			nop = OpBvUle
		}
		return ts.Cmp(nop, x.args[0], y.args[0])
	}
	if x.op == OpZext && y.IsConst() && signExt(y.val, w) >= 0 {
		inner := x.args[0]
		if y.val > mask(inner.sort) {
			return ts.True.ifElse(op == OpBvUlt || op == OpBvUle || op == OpBvSlt || op == OpBvSle, ts.False)
		}
		nop := op
		if op == OpBvSlt {
			nop = OpBvUlt
		} else if op == OpBvSle {
			nop = OpBvUle
		}
		return ts.Cmp(nop, inner, ts.BV(y.val, inner.sort))
	}
	if y.op == OpZext && x.IsConst() && signExt(x.val, w) >= 0 {
		inner := y.args[0]
		if x.val > mask(inner.sort) {
			return ts.False
		}
		nop := op
		if op == OpBvSlt {
			nop = OpBvUlt
		} else if op == OpBvSle {
			nop = OpBvUle
		}
		return ts.Cmp(nop, ts.BV(x.val, inner.sort), inner)
	}
	if op == OpBvUlt && y.IsConst() && y.val == 0 {
		return ts.False
	}
	if op == OpBvUle && x.IsConst() && x.val == 0 {
		return ts.True
	}
	return ts.bin(op, BoolSort, x, y)
}

func (t *Term) ifElse(c bool, other *Term) *Term {
	if c {
		return t
	}
	return other
}

func (ts *TermStore) Extract(hi, lo int, x *Term) *Term {
	w := Sort(hi - lo + 1)
	if lo == 0 && w == x.sort {
		return x
	}
	if x.IsConst() {
		return ts.BV(x.val>>uint(lo), w)
	}
	if x.op == OpZext && lo > 0 {
		inner := x.args[0]
		if lo >= int(inner.sort) {
			return ts.BV(0, w)
		}
		if hi < int(inner.sort) {
			return ts.Extract(hi, lo, inner)
		}
	}
	if (x.op == OpZext || x.op == OpSext) && lo == 0 {
		inner := x.args[0]
		if w == inner.sort {
			return inner
		}
		if w < inner.sort {
			return ts.Extract(hi, 0, inner)
		}
		if x.op == OpZext {
			return ts.Zext(inner, int(w-inner.sort))
		}
		return ts.Sext(inner, int(w-inner.sort))
	}
	if x.op == OpIte && (x.args[1].IsConst() || x.args[2].IsConst()) && lo == 0 {
		// push extraction into constant-leaf chains (bounded depth via recursion on DAG ids)
		return ts.extractIte(x, hi, 0)
	}
	t := &Term{op: OpExtract, sort: w, n: 1, a: hi, b: lo}
	t.args[0] = x
	return ts.mk(t)
}

func (ts *TermStore) extractIte(x *Term, hi int, depth int) *Term {
	if x.op == OpIte && depth < 300 && (x.args[1].IsConst() || x.args[2].IsConst()) {
		return ts.Ite(x.args[0], ts.extractIte(x.args[1], hi, depth+1), ts.extractIte(x.args[2], hi, depth+1))
	}
	if x.op == OpIte {
		t := &Term{op: OpExtract, sort: Sort(hi + 1), n: 1, a: hi, b: 0}
		t.args[0] = x
		return ts.mk(t)
	}
	return ts.Extract(hi, 0, x)
}

func (ts *TermStore) Zext(x *Term, extra int) *Term {
	if extra == 0 {
		return x
	}
	if x.IsConst() {
		return ts.BV(x.val, x.sort+Sort(extra))
	}
	if x.op == OpZext {
		return ts.Zext(x.args[0], extra+x.a)
	}
	t := &Term{op: OpZext, sort: x.sort + Sort(extra), n: 1, a: extra}
	t.args[0] = x
	return ts.mk(t)
}

func (ts *TermStore) Sext(x *Term, extra int) *Term {
	if extra == 0 {
		return x
	}
	if x.IsConst() {
		return ts.BV(uint64(signExt(x.val, x.sort)), x.sort+Sort(extra))
	}
	if x.op == OpZext {
		// sign bit known zero
		return ts.Zext(x.args[0], extra+x.a)
	}
	t := &Term{op: OpSext, sort: x.sort + Sort(extra), n: 1, a: extra}
	t.args[0] = x
	return ts.mk(t)
}

// Resize converts x to width w with zero or sign extension / truncation.
func (ts *TermStore) Resize(x *Term, w Sort, signed bool) *Term {
	if x.sort == w {
		return x
	}
	if x.sort > w {
		return ts.Extract(int(w)-1, 0, x)
	}
	if signed {
		return ts.Sext(x, int(w-x.sort))
	}
	return ts.Zext(x, int(w-x.sort))
}

// ---------- printing ----------

func sortStr(s Sort) string {
	if s == BoolSort {
		return "Bool"
	}
	return fmt.Sprintf("(_ BitVec %d)", int(s))
}

func (t *Term) ref() string {
	switch t.op {
	case OpConst:
		if t.sort == BoolSort {
			if t.val == 1 {
				return "true"
			}
			return "false"
		}
		if t.sort%4 == 0 {
			return fmt.Sprintf("#x%0*x", int(t.sort)/4, t.val)
		}
		return fmt.Sprintf("(_ bv%d %d)", t.val, int(t.sort))
	case OpVar:
		return t.name
	}
	return fmt.Sprintf("t%d", t.id)
}

func (t *Term) body() string {
	var sb strings.Builder
	switch t.op {
	case OpExtract:
		fmt.Fprintf(&sb, "((_ extract %d %d) %s)", t.a, t.b, t.args[0].ref())
	case OpZext:
		fmt.Fprintf(&sb, "((_ zero_extend %d) %s)", t.a, t.args[0].ref())
	case OpSext:
		fmt.Fprintf(&sb, "((_ sign_extend %d) %s)", t.a, t.args[0].ref())
	default:
		sb.WriteByte('(')
		sb.WriteString(opNames[t.op])
		for i := 0; i < t.n; i++ {
			sb.WriteByte(' ')
			sb.WriteString(t.args[i].ref())
		}
		sb.WriteByte(')')
	}
	return sb.String()
}

// emitDefs writes declarations/definitions for every node reachable from roots
// that is not yet in done, in dependency order.
func emitDefs(sb *strings.Builder, done map[int]bool, roots ...*Term) {
	type fr struct {
		t *Term
		i int
	}
	var stack []fr
	for _, r := range roots {
		if r == nil || done[r.id] {
			continue
		}
		stack = append(stack, fr{r, 0})
		for len(stack) > 0 {
			top := &stack[len(stack)-1]
			t := top.t
			if done[t.id] {
				stack = stack[:len(stack)-1]
				continue
			}
			if top.i < t.n {
				c := t.args[top.i]
				top.i++
				if !done[c.id] {
					stack = append(stack, fr{c, 0})
				}
				continue
			}
			done[t.id] = true
			switch t.op {
			case OpConst:
			case OpVar:
				fmt.Fprintf(sb, "(declare-const %s %s)\n", t.name, sortStr(t.sort))
			default:
				fmt.Fprintf(sb, "(define-fun t%d () %s %s)\n", t.id, sortStr(t.sort), t.body())
			}
			stack = stack[:len(stack)-1]
		}
	}
}

// eval evaluates t under a model of the variables (missing vars = 0).
func evalTerm(t *Term, model map[string]uint64, memo map[int]uint64) uint64 {
	if v, ok := memo[t.id]; ok {
		return v
	}
	// iterative post-order to avoid deep recursion
	type fr struct {
		t *Term
		i int
	}
	stack := []fr{{t, 0}}
	for len(stack) > 0 {
		top := &stack[len(stack)-1]
		x := top.t
		if _, ok := memo[x.id]; ok {
			stack = stack[:len(stack)-1]
			continue
		}
		if top.i < x.n {
			c := x.args[top.i]
			top.i++
			if _, ok := memo[c.id]; !ok {
				stack = append(stack, fr{c, 0})
			}
			continue
		}
		memo[x.id] = evalNode(x, model, memo)
		stack = stack[:len(stack)-1]
	}
	return memo[t.id]
}

func b2u(b bool) uint64 {
	if b {
		return 1
	}
	return 0
}

func evalNode(x *Term, model map[string]uint64, memo map[int]uint64) uint64 {
	arg := func(i int) uint64 { return memo[x.args[i].id] }
	switch x.op {
	case OpConst:
		return x.val
	case OpVar:
		return model[x.name] & mask(x.sort) | b2u(x.sort == BoolSort && model[x.name] != 0)
	case OpNot:
		return 1 - arg(0)
	case OpAnd:
		return arg(0) & arg(1)
	case OpOr:
		return arg(0) | arg(1)
	case OpXorB:
		return arg(0) ^ arg(1)
	case OpEq:
		return b2u(arg(0) == arg(1))
	case OpIte:
		if arg(0) != 0 {
			return arg(1)
		}
		return arg(2)
	case OpBvUlt:
		return b2u(arg(0) < arg(1))
	case OpBvUle:
		return b2u(arg(0) <= arg(1))
	case OpBvSlt:
		w := x.args[0].sort
		return b2u(signExt(arg(0), w) < signExt(arg(1), w))
	case OpBvSle:
		w := x.args[0].sort
		return b2u(signExt(arg(0), w) <= signExt(arg(1), w))
	case OpExtract:
		return (arg(0) >> uint(x.b)) & mask(x.sort)
	case OpZext:
		return arg(0)
	case OpSext:
		return uint64(signExt(arg(0), x.args[0].sort)) & mask(x.sort)
	case OpConcat:
		return (arg(0)<<uint(x.args[1].sort) | arg(1)) & mask(x.sort)
	case OpBvNot:
		return ^arg(0) & mask(x.sort)
	case OpBvNeg:
		return -arg(0) & mask(x.sort)
	}
	// binary bv ops: reuse constant folder
	ts := NewTermStore()
	r := ts.BvBin(x.op, ts.BV(arg(0), x.sort), ts.BV(arg(1), x.sort))
	return r.val
}
