package main

// Go regexp as a theory: the real regexp/syntax Prog (what the real matcher executes) is encoded
// as boolean tables over the byte terms of a symbolic string, with leftmost-first captures.

import (
	"fmt"
	"regexp"
	"regexp/syntax"
	"sync"
	"unicode"
)

type regexObj struct {
	pattern string
	re      *regexp.Regexp
	prog    *syntax.Prog
	ncap    int // number of capture slots (2*(groups+1))
	preds   [][]int
	err     string // non-empty: construct refused
}

var regexCompileCache sync.Map

func compileRegex(pattern string) (*regexObj, error) {
	if v, ok := regexCompileCache.Load(pattern); ok {
		return v.(*regexObj), nil
	}
	re, err := regexp.Compile(pattern)
	if err != nil {
		return nil, err
	}
	sre, err := syntax.Parse(pattern, syntax.Perl)
	if err != nil {
		return nil, err
	}
	ncap := 2 * (sre.MaxCap() + 1)
	sre = sre.Simplify()
	prog, err := syntax.Compile(sre)
	if err != nil {
		return nil, err
	}
	o := &regexObj{pattern: pattern, re: re, prog: prog, ncap: ncap}
	o.preds = make([][]int, len(prog.Inst))
	for pc := range prog.Inst {
		in := &prog.Inst[pc]
		switch in.Op {
		case syntax.InstAlt, syntax.InstAltMatch:
			o.preds[in.Out] = append(o.preds[in.Out], pc)
			if in.Arg != in.Out {
				o.preds[in.Arg] = append(o.preds[in.Arg], pc)
			}
		case syntax.InstMatch, syntax.InstFail:
		default:
			o.preds[in.Out] = append(o.preds[in.Out], pc)
		}
		switch in.Op {
		case syntax.InstRune, syntax.InstRune1:
			if syntax.Flags(in.Arg)&syntax.FoldCase != 0 {
				o.err = "case-folding rune instruction"
			}
			if !uniformNonASCII(in.Rune) {
				o.err = "rune class not uniform over non-ASCII runes"
			}
		}
	}
	regexCompileCache.Store(pattern, o)
	return o, nil
}

// runeRanges returns the class of a rune instruction as ranges.
func runeRanges(in *syntax.Inst) [][2]rune {
	switch in.Op {
	case syntax.InstRuneAny:
		return [][2]rune{{0, unicode.MaxRune}}
	case syntax.InstRuneAnyNotNL:
		return [][2]rune{{0, '\n' - 1}, {'\n' + 1, unicode.MaxRune}}
	}
	if len(in.Rune) == 1 {
		return [][2]rune{{in.Rune[0], in.Rune[0]}}
	}
	var r [][2]rune
	for i := 0; i+1 < len(in.Rune); i += 2 {
		r = append(r, [2]rune{in.Rune[i], in.Rune[i+1]})
	}
	return r
}

func uniformNonASCII(rs []rune) bool {
	if len(rs) == 1 {
		return rs[0] < 0x80
	}
	covered := rune(0x80)
	any := false
	for i := 0; i+1 < len(rs); i += 2 {
		lo, hi := rs[i], rs[i+1]
		if hi < 0x80 {
			continue
		}
		any = true
		if lo > covered {
			return false
		}
		if hi+1 > covered {
			covered = hi + 1
		}
	}
	return !any || covered > unicode.MaxRune
}

func coversNonASCII(r [][2]rune) bool {
	for _, x := range r {
		if x[1] >= 0x80 {
			return true
		}
	}
	return false
}

type regexTables struct {
	o       *regexObj
	p       *pathCtx
	bs      []*Term
	n       *Term
	L       int
	m       [][]*Term
	mstate  [][]uint8
	on      [][]*Term
	ostate  [][]uint8
	sel     []*Term
	matched *Term
	caps    []*Term // 64-bit positions, relative
	set     []*Term
	bad     string
}

type regexApp struct {
	o       *regexObj
	s       symStr
	matched *Term
	caps    []*Term
	set     []*Term
}

type rtKey struct {
	pat      string
	buf      int
	off, n   int
	max      int
}

func (p *pathCtx) regexTablesFor(o *regexObj, s symStr) *regexTables {
	k := rtKey{o.pattern, s.buf.id, s.off.id, s.n.id, s.max}
	if p.rtCache == nil {
		p.rtCache = map[rtKey]*regexTables{}
	}
	if t, ok := p.rtCache[k]; ok {
		return t
	}
	t := &regexTables{o: o, p: p, bs: p.viewBytes(s), n: s.n, L: s.max}
	np := len(o.prog.Inst)
	t.m = make([][]*Term, np)
	t.mstate = make([][]uint8, np)
	t.on = make([][]*Term, np)
	t.ostate = make([][]uint8, np)
	for i := 0; i < np; i++ {
		t.m[i] = make([]*Term, t.L+1)
		t.mstate[i] = make([]uint8, t.L+1)
		t.on[i] = make([]*Term, t.L+1)
		t.ostate[i] = make([]uint8, t.L+1)
	}
	t.build()
	p.rtCache[k] = t
	p.ex.mu.Lock()
	p.ex.regexProgs[o.pattern] = fmt.Sprintf("|Prog|=%d", np)
	p.ex.mu.Unlock()
	return t
}

func (t *regexTables) posLE(pos int) *Term { // pos <= n
	return t.p.ts.Cmp(OpBvUle, t.p.ts.BV(uint64(pos), 64), t.n)
}
func (t *regexTables) posLT(pos int) *Term { // pos < n
	return t.p.ts.Cmp(OpBvUlt, t.p.ts.BV(uint64(pos), 64), t.n)
}

func (t *regexTables) classTerm(in *syntax.Inst, b *Term) *Term {
	ts := t.p.ts
	rs := runeRanges(in)
	r := ts.False
	for _, x := range rs {
		lo, hi := x[0], x[1]
		if lo >= 0x80 {
			continue
		}
		if hi >= 0x80 {
			hi = 0x7f
		}
		if lo == hi {
			r = ts.Or(r, ts.Eq(b, ts.BV(uint64(lo), 8)))
		} else {
			c := ts.And(ts.Cmp(OpBvUle, ts.BV(uint64(lo), 8), b), ts.Cmp(OpBvUle, b, ts.BV(uint64(hi), 8)))
			r = ts.Or(r, c)
		}
	}
	if coversNonASCII(rs) {
		r = ts.Or(r, ts.Cmp(OpBvUle, ts.BV(0x80, 8), b))
	}
	return r
}

func (t *regexTables) isWord(b *Term) *Term {
	ts := t.p.ts
	rg := func(lo, hi byte) *Term {
		return ts.And(ts.Cmp(OpBvUle, ts.BV(uint64(lo), 8), b), ts.Cmp(OpBvUle, b, ts.BV(uint64(hi), 8)))
	}
	return ts.OrN(rg('a', 'z'), rg('A', 'Z'), rg('0', '9'), ts.Eq(b, ts.BV('_', 8)))
}

func (t *regexTables) emptyCond(flags syntax.EmptyOp, pos int) *Term {
	ts := t.p.ts
	c := ts.True
	atEnd := ts.Eq(ts.BV(uint64(pos), 64), t.n)
	nl := ts.BV('\n', 8)
	if flags&syntax.EmptyBeginText != 0 {
		c = ts.And(c, ts.Bool(pos == 0))
	}
	if flags&syntax.EmptyBeginLine != 0 {
		if pos > 0 {
			c = ts.And(c, ts.Eq(t.bs[pos-1], nl))
		}
	}
	if flags&syntax.EmptyEndText != 0 {
		c = ts.And(c, atEnd)
	}
	if flags&syntax.EmptyEndLine != 0 {
		if pos < t.L {
			c = ts.And(c, ts.Or(atEnd, ts.Eq(t.bs[pos], nl)))
		} else {
			c = ts.And(c, atEnd)
		}
	}
	if flags&(syntax.EmptyWordBoundary|syntax.EmptyNoWordBoundary) != 0 {
		before := ts.False
		if pos > 0 {
			before = t.isWord(t.bs[pos-1])
		}
		after := ts.False
		if pos < t.L {
			after = ts.And(t.posLT(pos), t.isWord(t.bs[pos]))
		}
		wb := ts.Not(ts.Eq(before, after))
		if flags&syntax.EmptyWordBoundary != 0 {
			c = ts.And(c, wb)
		}
		if flags&syntax.EmptyNoWordBoundary != 0 {
			c = ts.And(c, ts.Not(wb))
		}
	}
	return c
}

// M returns the term "the program can reach Match from pc at byte position pos".
func (t *regexTables) M(pc, pos int) *Term {
	switch t.mstate[pc][pos] {
	case 2:
		return t.m[pc][pos]
	case 1:
		t.bad = "empty-width cycle in regex program"
		return t.p.ts.False
	}
	t.mstate[pc][pos] = 1
	ts := t.p.ts
	in := &t.o.prog.Inst[pc]
	var r *Term
	switch in.Op {
	case syntax.InstMatch:
		r = ts.True
	case syntax.InstFail:
		r = ts.False
	case syntax.InstAlt, syntax.InstAltMatch:
		r = ts.Or(t.M(int(in.Out), pos), t.M(int(in.Arg), pos))
	case syntax.InstCapture, syntax.InstNop:
		r = t.M(int(in.Out), pos)
	case syntax.InstEmptyWidth:
		c := t.emptyCond(syntax.EmptyOp(in.Arg), pos)
		if c.IsFalse() {
			r = c
		} else {
			r = ts.And(c, t.M(int(in.Out), pos))
		}
	default: // rune instructions
		if pos >= t.L {
			r = ts.False
		} else {
			c := ts.And(t.posLT(pos), t.classTerm(in, t.bs[pos]))
			if c.IsFalse() {
				r = c
			} else {
				r = ts.And(c, t.M(int(in.Out), pos+1))
			}
		}
	}
	t.m[pc][pos] = r
	t.mstate[pc][pos] = 2
	return r
}

func isRuneOp(op syntax.InstOp) bool {
	switch op {
	case syntax.InstRune, syntax.InstRune1, syntax.InstRuneAny, syntax.InstRuneAnyNotNL:
		return true
	}
	return false
}

// On returns the term "the preferred (leftmost-first) thread visits pc at position pos".
func (t *regexTables) On(pc, pos int) *Term {
	switch t.ostate[pc][pos] {
	case 2:
		return t.on[pc][pos]
	case 1:
		t.bad = "empty-width cycle in regex program"
		return t.p.ts.False
	}
	t.ostate[pc][pos] = 1
	ts := t.p.ts
	r := ts.False
	if pc == t.o.prog.Start {
		r = t.sel[pos]
	}
	for _, q := range t.o.preds[pc] {
		in := &t.o.prog.Inst[q]
		switch {
		case in.Op == syntax.InstAlt || in.Op == syntax.InstAltMatch:
			oq := t.On(q, pos)
			if oq.IsFalse() {
				continue
			}
			if int(in.Out) == pc {
				r = ts.Or(r, ts.And(oq, t.M(pc, pos)))
			}
			if int(in.Arg) == pc && in.Arg != in.Out {
				r = ts.Or(r, ts.And(oq, ts.Not(t.M(int(in.Out), pos))))
			}
		case isRuneOp(in.Op):
			if pos > 0 {
				r = ts.Or(r, t.On(q, pos-1))
			}
		default:
			r = ts.Or(r, t.On(q, pos))
		}
	}
	t.on[pc][pos] = r
	t.ostate[pc][pos] = 2
	return r
}

func (t *regexTables) build() {
	ts := t.p.ts
	if t.o.err != "" {
		t.bad = t.o.err
	}
	start := t.o.prog.Start
	t.sel = make([]*Term, t.L+1)
	earlier := ts.False
	for s := 0; s <= t.L; s++ {
		here := ts.And(t.posLE(s), t.M(start, s))
		t.sel[s] = ts.And(here, ts.Not(earlier))
		earlier = ts.Or(earlier, here)
	}
	t.matched = earlier
}

func (t *regexTables) buildCaps() {
	if t.caps != nil {
		return
	}
	ts := t.p.ts
	nc := t.o.ncap
	t.caps = make([]*Term, nc)
	t.set = make([]*Term, nc)
	byArg := make([][]int, nc)
	matchPC := -1
	for pc := range t.o.prog.Inst {
		in := &t.o.prog.Inst[pc]
		if in.Op == syntax.InstCapture && int(in.Arg) < nc {
			byArg[in.Arg] = append(byArg[in.Arg], pc)
		}
		if in.Op == syntax.InstMatch {
			if matchPC >= 0 {
				t.bad = "multiple match instructions"
			}
			matchPC = pc
		}
	}
	w := Sort(8)
	if t.L > 255 {
		w = 16
	}
	chain := func(at func(pos int) *Term) (*Term, *Term) {
		r := ts.BV(0, w)
		any := ts.False
		for pos := 0; pos <= t.L; pos++ {
			c := at(pos)
			r = ts.Ite(c, ts.BV(uint64(pos), w), r)
			any = ts.Or(any, c)
		}
		return ts.Zext(r, int(64-w)), any
	}
	t.caps[0], t.set[0] = chain(func(pos int) *Term { return t.sel[pos] })
	t.caps[1], t.set[1] = chain(func(pos int) *Term { return t.On(matchPC, pos) })
	for j := 2; j < nc; j++ {
		pcs := byArg[j]
		t.caps[j], t.set[j] = chain(func(pos int) *Term {
			r := ts.False
			for _, pc := range pcs {
				r = ts.Or(r, t.On(pc, pos))
			}
			return r
		})
	}
}

// regexMatch returns the "matches" term for s.
func (p *pathCtx) regexMatch(o *regexObj, s symStr) *Term {
	t := p.regexTablesFor(o, s)
	if t.bad != "" {
		p.abort("unsupported", "regex "+o.pattern+": "+t.bad)
	}
	p.regexApps = append(p.regexApps, regexApp{o: o, s: s, matched: t.matched})
	return t.matched
}

// regexSubmatch returns the matches term and the capture views.
func (p *pathCtx) regexSubmatch(o *regexObj, s symStr) (*Term, []symStr) {
	t := p.regexTablesFor(o, s)
	t.buildCaps()
	if t.bad != "" {
		p.abort("unsupported", "regex "+o.pattern+": "+t.bad)
	}
	ts := p.ts
	p.regexApps = append(p.regexApps, regexApp{o: o, s: s, matched: t.matched, caps: t.caps, set: t.set})
	var out []symStr
	for g := 0; 2*g+1 < o.ncap; g++ {
		lo, hi := t.caps[2*g], t.caps[2*g+1]
		set := ts.And(t.set[2*g], t.set[2*g+1])
		n := ts.Ite(set, ts.BvBin(OpBvSub, hi, lo), ts.BV(0, 64))
		off := ts.BvBin(OpBvAdd, s.off, ts.Ite(set, lo, ts.BV(0, 64)))
		out = append(out, symStr{buf: s.buf, off: off, n: n, max: s.max})
	}
	return t.matched, out
}

// validateRegexApps replays every regex application of the path on the concrete strings of a model
// with the real regexp package; returns a description of the first disagreement.
func (p *pathCtx) validateRegexApps(model map[string]uint64) (int, string) {
	memo := map[int]uint64{}
	checked := 0
	for _, a := range p.regexApps {
		n := int(evalTerm(a.s.n, model, memo))
		bs := p.viewBytes(a.s)
		if n > len(bs) {
			n = len(bs)
		}
		raw := make([]byte, n)
		for i := 0; i < n; i++ {
			raw[i] = byte(evalTerm(bs[i], model, memo))
		}
		str := string(raw)
		wantIdx := a.o.re.FindStringSubmatchIndex(str)
		got := evalTerm(a.matched, model, memo) == 1
		checked++
		if got != (wantIdx != nil) {
			return checked, fmt.Sprintf("regex %q on %q: encoder says matched=%v, real regexp says %v", a.o.pattern, str, got, wantIdx != nil)
		}
		if wantIdx != nil && a.caps != nil {
			for j := 0; j < len(a.caps) && j < len(wantIdx); j++ {
				set := evalTerm(a.set[j], model, memo) == 1
				if wantIdx[j] < 0 {
					if set {
						return checked, fmt.Sprintf("regex %q on %q: cap[%d] set by encoder, unset by real regexp", a.o.pattern, str, j)
					}
					continue
				}
				if !set || int(evalTerm(a.caps[j], model, memo)) != wantIdx[j] {
					return checked, fmt.Sprintf("regex %q on %q: cap[%d]=%d (set=%v) but real regexp gives %d", a.o.pattern, str, j, evalTerm(a.caps[j], model, memo), set, wantIdx[j])
				}
			}
		}
	}
	return checked, ""
}
