package main

// symgo: solver-based checking of audito-maldito's real code.
//
//	symgo check -plan plans/C17.json -tier quick
//	symgo replay -file replays/x.json

import (
	"encoding/json"
	"flag"
	"fmt"
	"os"
	"os/exec"
	"path/filepath"
	"runtime"
	rtdebug "runtime/debug"
	"runtime/pprof"
	"sort"
	"strconv"
	"strings"
	"sync"
	"time"
)

type TierCfg struct {
	Params      map[string]int `json:"params"`
	Ascii7      bool           `json:"ascii7"`
	AssertMs    int            `json:"assert_ms"`
	BranchMs    int            `json:"branch_ms"`
	MaxSteps    int64          `json:"max_steps"`
	MaxPaths    int64          `json:"max_paths"`
	Preempt     *int           `json:"preempt"`
	Delays      *int           `json:"delays"`
	SymMapOrder bool           `json:"sym_map_order"`
	Skip        bool           `json:"skip"`
	OneShot     bool           `json:"oneshot_first"`
	CrossCheck  bool           `json:"cross_check"`
	Race        bool           `json:"race"`
}

type RunSpec struct {
	Name        string   `json:"name"`
	Pkg         string   `json:"pkg"`
	Fn          string   `json:"fn"`
	Quick       TierCfg  `json:"quick"`
	Thorough    *TierCfg `json:"thorough"`
	Reach       []string `json:"reach"` // markers that must be witnessed
	Bounds      string   `json:"bounds"`
	NoInitExtra bool     `json:"no_init_extra"`
}

type Plan struct {
	Property    string    `json:"property"`
	Runs        []RunSpec `json:"runs"`
	Assumptions []string  `json:"assumptions"`
	Outside     []string  `json:"outside_bounds"`
	InitExtra   []string  `json:"init_extra"`
	SitePrefix  string    `json:"site_prefix"`
	Logic       string    `json:"logic"`
}

type KnownFinding struct {
	Property string `json:"property"`
	Status   string `json:"status"` // known | fixed
	Site     string `json:"site"`
	Match    string `json:"match"` // substring of the violation's run name / message / nondet dump
	What     string `json:"what"`
	Commit   string `json:"commit,omitempty"`
}

var (
	verifDir = "/verif"
	repoDir  = "/repo"
)

func main() {
	if len(os.Args) < 2 {
		fmt.Fprintln(os.Stderr, "usage: symgo check|replay ...")
		os.Exit(2)
	}
	if v := os.Getenv("VERIF_DIR"); v != "" {
		verifDir = v
	}
	if v := os.Getenv("VERIF_REPO"); v != "" {
		repoDir = v
	}
	switch os.Args[1] {
	case "check":
		os.Exit(cmdCheck(os.Args[2:]))
	case "replay":
		os.Exit(cmdReplay(os.Args[2:]))
	}
	fmt.Fprintln(os.Stderr, "unknown command")
	os.Exit(2)
}

func cmdCheck(args []string) int {
	fs := flag.NewFlagSet("check", flag.ExitOnError)
	planPath := fs.String("plan", "", "plan file")
	tier := fs.String("tier", "quick", "quick|thorough")
	only := fs.String("only", "", "run only the named run")
	debug := fs.Bool("debug", false, "")
	workers := fs.Int("workers", runtime.NumCPU(), "")
	noReplay := fs.Bool("no-replay", false, "")
	noEvidence := fs.Bool("no-evidence", false, "")
	noWitness := fs.Bool("no-witness", false, "skip the native replay of reach witnesses")
	var overrides multiFlag
	fs.Var(&overrides, "param", "K=V override")
	fs.Parse(args)
	if t := os.Getenv("VERIF_TIER"); t != "" && *tier == "" {
		*tier = t
	}
	seed := 0
	if s := os.Getenv("VERIF_SEED"); s != "" {
		seed, _ = strconv.Atoi(s)
	}
	rtdebug.SetGCPercent(1000) // the interpreter allocates heavily and memory is plentiful
	// memory watchdog: an exploration that outgrows the machine is an inconclusive run, never an
	// out-of-memory kill without a verdict
	go func() {
		limit := uint64(28) << 30
		if v, err := strconv.Atoi(os.Getenv("SYMGO_MEMLIMIT_GB")); err == nil && v > 0 {
			limit = uint64(v) << 30
		}
		for {
			time.Sleep(2 * time.Second)
			var ms runtime.MemStats
			runtime.ReadMemStats(&ms)
			if ms.HeapAlloc > limit {
				fmt.Printf("INCONCLUSIVE: memory limit reached (%d MiB of heap); the exploration was cut\n", ms.HeapAlloc>>20)
				os.Exit(2)
			}
		}
	}()
	if pf := os.Getenv("SYMGO_CPUPROFILE"); pf != "" {
		f, _ := os.Create(pf)
		pprof.StartCPUProfile(f)
		defer pprof.StopCPUProfile()
	}
	t0 := time.Now()
	data, err := os.ReadFile(*planPath)
	if err != nil {
		fmt.Fprintln(os.Stderr, err)
		return 2
	}
	var plan Plan
	if err := json.Unmarshal(data, &plan); err != nil {
		fmt.Fprintln(os.Stderr, "plan:", err)
		return 2
	}
	initExtra = plan.InitExtra
	solverLogic = plan.Logic

	// load every package named by the plan
	pkgSet := map[string]bool{}
	for _, r := range plan.Runs {
		pkgSet[r.Pkg] = true
	}
	var pats []string
	for p := range pkgSet {
		pats = append(pats, p)
	}
	sort.Strings(pats)
	tl := time.Now()
	ld, err := Load(repoDir, filepath.Join(verifDir, "harness"), pats)
	if err != nil {
		fmt.Fprintln(os.Stderr, "INCONCLUSIVE: cannot load /repo with harness overlay:", err)
		writeEvidence(plan, *tier, seed, nil, []string{"load failed: " + err.Error()}, time.Since(t0), 0, 0, *noEvidence)
		return 2
	}
	loadDur := time.Since(tl)

	var results []*RunResult
	var inconclusive []string
	var resMu sync.Mutex
	var wg sync.WaitGroup
	pathSem = make(chan struct{}, *workers)
	runSem := make(chan struct{}, 8)
	resSlots := make([]*RunResult, len(plan.Runs))
	for ri, r := range plan.Runs {
		if *only != "" && r.Name != *only {
			continue
		}
		tc := r.Quick
		if *tier == "thorough" && r.Thorough != nil {
			tc = *r.Thorough
		}
		if tc.Skip {
			continue
		}
		cfg := Config{Property: plan.Property, Tier: *tier, Seed: seed, Pkg: r.Pkg, Harness: r.Fn, Workers: *workers,
			BranchMs: tc.BranchMs, AssertMs: tc.AssertMs, MaxSteps: tc.MaxSteps, MaxPaths: tc.MaxPaths, Ascii7: tc.Ascii7,
			SitePrefix: plan.SitePrefix, Params: map[string]int{}, SymMapOrder: tc.SymMapOrder, Debug: *debug, Preempt: -1, Delays: -1, NoInitExtra: r.NoInitExtra, OneShotFirst: tc.OneShot, CrossCheck: tc.CrossCheck, Race: tc.Race}
		for k, v := range tc.Params {
			cfg.Params[k] = v
		}
		for _, o := range overrides {
			kv := strings.SplitN(o, "=", 2)
			if len(kv) == 2 {
				n, _ := strconv.Atoi(kv[1])
				cfg.Params[kv[0]] = n
			}
		}
		if tc.Delays != nil {
			cfg.Delays = *tc.Delays
		}
		if tc.Preempt != nil {
			cfg.Preempt = *tc.Preempt
		}
		if cfg.BranchMs == 0 {
			cfg.BranchMs = 20000
		}
		if cfg.AssertMs == 0 {
			cfg.AssertMs = 60000
		}
		if cfg.MaxSteps == 0 {
			cfg.MaxSteps = 3000000
		}
		fn := ld.findFunc(r.Pkg, r.Fn)
		if fn == nil {
			inconclusive = append(inconclusive, fmt.Sprintf("run %s: harness %s.%s not found", r.Name, r.Pkg, r.Fn))
			continue
		}
		wg.Add(1)
		go func(ri int, r RunSpec, cfg Config) {
			defer wg.Done()
			runSem <- struct{}{}
			defer func() { <-runSem }()
			ex := NewExplorer(cfg, ld)
			ex.harness = fn
			tr := time.Now()
			ex.Run()
			res := &RunResult{Spec: r, Ex: ex, Dur: time.Since(tr), Cfg: cfg}
			resMu.Lock()
			defer resMu.Unlock()
			resSlots[ri] = res
			for _, m := range ex.inconcl {
				inconclusive = append(inconclusive, "run "+r.Name+": "+m)
			}
			for _, id := range r.Reach {
				if ex.reach[id] == 0 && !ex.stoppedEarly {
					inconclusive = append(inconclusive, fmt.Sprintf("run %s: reach marker %q never witnessed (vacuous harness?)", r.Name, id))
				}
			}
			if ex.pathsDone == 0 && !ex.stoppedEarly {
				inconclusive = append(inconclusive, fmt.Sprintf("run %s: no path completed", r.Name))
			}
			fmt.Fprintf(os.Stderr, "[%s/%s] paths=%d done=%d infeasible=%d decisions=%d steps=%d violations=%d inconclusive=%d %.1fs\n",
				plan.Property, r.Name, ex.paths, ex.pathsDone, ex.infeasible, ex.decisions, ex.steps, len(ex.violations), len(ex.inconcl), res.Dur.Seconds())
		}(ri, r, cfg)
	}
	wg.Wait()
	for _, r := range resSlots {
		if r != nil {
			results = append(results, r)
		}
	}

	// replay violations natively, match against known findings
	known := loadKnown()
	exit := 0
	nviol := 0
	validated := 0
	os.MkdirAll(filepath.Join(verifDir, "replays"), 0o755)
	for _, res := range results {
		for k, v := range res.Ex.violations {
			path := filepath.Join(verifDir, "replays", fmt.Sprintf("%s-%s-%s-%d.json", plan.Property, res.Spec.Name, sanitize(v.Site), k))
			writeJSON(path, v)
			desc := describeViolation(res.Spec.Name, v)
			if !*noReplay {
				ok, out := replayNative(path, v, ld)
				v.Confirmed = ok
				v.ReplayOut = out
				writeJSON(path, v)
				if ok {
					validated++
				} else {
					inconclusive = append(inconclusive, fmt.Sprintf("run %s: counterexample at %s did not reproduce natively (%s): encoding or stub suspect", res.Spec.Name, v.Site, firstLine(out)))
					continue
				}
			}
			if kf := matchKnown(known, plan.Property, v, desc); kf != nil {
				fmt.Printf("KNOWN-FINDING: property=%s %s\n", plan.Property, kf.What)
				continue
			}
			nviol++
			fmt.Printf("VIOLATION property=%s replay=%s\n", plan.Property, path)
			fmt.Printf("  run=%s site=%s %s\n  %s\n", res.Spec.Name, v.Site, v.Msg, desc)
			exit = 1
		}
	}
	if !*noReplay && !*noWitness {
		nok, bad := validateWitnesses(results, ld)
		validated += nok
		inconclusive = append(inconclusive, bad...)
	}
	if exit == 0 && len(inconclusive) > 0 {
		exit = 2
	}
	for _, m := range inconclusive {
		fmt.Printf("INCONCLUSIVE property=%s %s\n", plan.Property, m)
	}
	writeEvidence(plan, *tier, seed, results, inconclusive, time.Since(t0), nviol, validated, *noEvidence)
	if exit == 0 {
		fmt.Printf("OK property=%s tier=%s runs=%d load=%.1fs total=%.1fs\n", plan.Property, *tier, len(results), loadDur.Seconds(), time.Since(t0).Seconds())
	}
	return exit
}

type multiFlag []string

func (m *multiFlag) String() string     { return strings.Join(*m, ",") }
func (m *multiFlag) Set(s string) error { *m = append(*m, s); return nil }

type RunResult struct {
	Spec RunSpec
	Ex   *Explorer
	Dur  time.Duration
	Cfg  Config
}

func sanitize(s string) string {
	var sb strings.Builder
	for _, c := range s {
		if (c >= 'a' && c <= 'z') || (c >= 'A' && c <= 'Z') || (c >= '0' && c <= '9') || c == '.' || c == '_' || c == '-' {
			sb.WriteRune(c)
		} else {
			sb.WriteByte('_')
		}
	}
	return sb.String()
}

func firstLine(s string) string {
	if i := strings.IndexByte(s, '\n'); i >= 0 {
		return s[:i]
	}
	return s
}

func writeJSON(path string, v any) {
	data, _ := json.MarshalIndent(v, "", " ")
	os.WriteFile(path, data, 0o644)
}

func describeNondets(nv []NondetVal) string {
	var parts []string
	for _, n := range nv {
		switch n.Kind {
		case "env":
			continue
		case "str":
			parts = append(parts, fmt.Sprintf("%s=%q", n.Name, string(n.Str)))
		default:
			parts = append(parts, fmt.Sprintf("%s=%d", n.Name, n.Int))
		}
	}
	return strings.Join(parts, " ")
}

func describeViolation(run string, v *Violation) string {
	s := "run=" + run + " site=" + v.Site + " " + describeNondets(v.Nondets)
	if len(v.Notes) > 0 && v.Site != "nodeadlock" {
		s += " notes=" + strings.Join(v.Notes, ";")
	}
	return s
}

func loadKnown() []KnownFinding {
	var k []KnownFinding
	data, err := os.ReadFile(filepath.Join(verifDir, "known_findings.json"))
	if err != nil {
		return nil
	}
	json.Unmarshal(data, &k)
	return k
}

func matchKnown(known []KnownFinding, prop string, v *Violation, desc string) *KnownFinding {
	for i := range known {
		k := &known[i]
		if k.Status != "known" || k.Property != prop || k.Site != v.Site {
			continue
		}
		if k.Match == "" || strings.Contains(desc, k.Match) || strings.Contains(v.Msg, k.Match) {
			return k
		}
	}
	return nil
}

// ---------- evidence ----------

func writeEvidence(plan Plan, tier string, seed int, results []*RunResult, inconclusive []string, wall time.Duration, nviol, validated int, skip bool) {
	if skip {
		return
	}
	var states, transitions, obligations, discharged, qs, qu, qk int64
	var samples []any
	funcs := map[string]bool{}
	stubs := map[string]bool{}
	regexes := map[string]string{}
	var runs []any
	var bounds []string
	maxDepth := 0
	for _, r := range results {
		ex := r.Ex
		states += ex.pathsDone
		transitions += ex.decisions
		qs += ex.satq
		qu += ex.unsatq
		qk += ex.unkq
		for f := range ex.funcs {
			funcs[f] = true
		}
		for s := range ex.stubsUsed {
			stubs[s] = true
		}
		for k, v := range ex.regexProgs {
			regexes[k] = v
		}
		if ex.maxDepth > maxDepth {
			maxDepth = ex.maxDepth
		}
		siteOut := map[string]any{}
		var siteNames []string
		for s := range ex.sites {
			siteNames = append(siteNames, s)
		}
		sort.Strings(siteNames)
		for _, s := range siteNames {
			st := ex.sites[s]
			obligations += st.Symbolic
			discharged += st.SymDischarged
			siteOut[s] = map[string]int64{"paths_reaching": st.Evaluated, "solver_queries": st.Symbolic, "discharged": st.Discharged, "discharged_by_unsat": st.SymDischarged, "violated": st.Violated, "unknown": st.Unknown}
		}
		var reachNames []string
		for id := range ex.reach {
			reachNames = append(reachNames, id)
		}
		sort.Strings(reachNames)
		reachOut := map[string]any{}
		for _, id := range reachNames {
			reachOut[id] = ex.reach[id]
			if nv, ok := ex.reachSample[id]; ok && len(samples) < 12 {
				samples = append(samples, map[string]any{"run": r.Spec.Name, "witness_of": id, "inputs": describeNondets(nv)})
			}
		}
		for _, v := range ex.violations {
			if len(samples) < 16 {
				samples = append(samples, map[string]any{"run": r.Spec.Name, "counterexample_at": v.Site, "inputs": describeNondets(v.Nondets), "replayed_natively": v.Confirmed})
			}
		}
		runs = append(runs, map[string]any{"run": r.Spec.Name, "harness": r.Spec.Pkg + "." + r.Spec.Fn, "params": r.Cfg.Params, "ascii7": r.Cfg.Ascii7,
			"paths_started": ex.paths, "paths_completed": ex.pathsDone, "paths_infeasible": ex.infeasible, "decisions": ex.decisions, "ssa_instructions": ex.steps,
			"max_decision_depth": ex.maxDepth, "obligation_sites": siteOut, "reach_markers": reachOut, "wall_s": r.Dur.Seconds(), "bounds": r.Spec.Bounds,
			"unknown_branch_queries": ex.unknownBr, "paths_truncated_at_tick_bound": ex.truncated, "preemption_bound": r.Cfg.Preempt, "delay_bound": r.Cfg.Delays})
		if r.Spec.Bounds != "" {
			bounds = append(bounds, r.Spec.Name+": "+r.Spec.Bounds)
		}
	}
	if len(samples) == 0 {
		samples = append(samples, map[string]any{"note": "no concrete witness extracted in this run"})
	}
	if states < 1 {
		states = 1
	}
	if transitions < 1 {
		transitions = 1
	}
	keys := func(m map[string]bool) []string {
		var out []string
		for k := range m {
			out = append(out, k)
		}
		sort.Strings(out)
		return out
	}
	cov := map[string]any{
		"states":                        states,
		"transitions":                   transitions,
		"traces_validated_against_impl": validated,
		"samples":                       samples,
		"obligations":                   obligations,
		"discharged":                    discharged,
		"explanation":                   "states = symbolic paths of the real SSA executed to completion; transitions = solver-decided or enumerated decisions along them; each obligation is one SMT query pc ∧ ¬assertion answered unsat (discharged) or sat (counterexample, replayed natively before being reported)",
		"functions_encoded":             keys(funcs),
		"stubs_used":                    keys(stubs),
		"regex_programs":                regexes,
		"queries":                       map[string]int64{"sat": qs, "unsat": qu, "unknown": qk},
		"solver_time_s":                 float64(totalSolverNanos) / 1e9,
		"solver":                        solverVersion(),
		"cross_checked_unsat":           crossChecked,
		"cross_check_disagreements":     crossDisagree,
		"cross_check_timeouts":          crossTimeout,
		"runs":                          runs,
		"bounds":                        bounds,
		"outside_bounds":                plan.Outside,
		"inconclusive":                  inconclusive,
		"max_decision_depth":            maxDepth,
		"exhaustive":                    len(inconclusive) == 0,
	}
	ev := map[string]any{
		"property_id": plan.Property,
		"tier":        tier,
		"seed":        seed,
		"level":       "model_checking",
		"coverage":    cov,
		"assumptions": plan.Assumptions,
		"wall_s":      wall.Seconds(),
		"violations":  nviol,
	}
	os.MkdirAll(filepath.Join(verifDir, "evidence"), 0o755)
	writeJSON(filepath.Join(verifDir, "evidence", plan.Property+".json"), ev)
}

func solverVersion() string {
	out, err := exec.Command(solverBin, "--version").Output()
	if err != nil {
		return solverBin
	}
	return strings.TrimSpace(string(out))
}
