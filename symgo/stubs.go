package main

// Intrinsics and library stubs. Every stub is part of the trusted base and is reported in the
// evidence (stubs_used).

import (
	"fmt"
	"go/token"
	"go/types"
	"sort"
	"strings"
	"time"

	"golang.org/x/tools/go/ssa"
)

type stubFn func(fr *frame, args []value) value

type noStub struct{}

var exactStubs = map[string]stubFn{}

type prefixStub struct {
	prefix string
	fn     func(name string) stubFn
}

var prefixStubs []prefixStub

func (ld *Loaded) stubFor(fn *ssa.Function) stubFn {
	if v, ok := ld.stubCache.Load(fn); ok {
		if s, ok := v.(stubFn); ok {
			return s
		}
		return nil
	}
	var res stubFn
	if fn.Parent() == nil {
		name := fn.String()
		// strip type arguments of generic instantiations for matching
		base := name
		if i := strings.Index(base, "["); i >= 0 && strings.HasSuffix(base, "]") {
			// function instantiation f[T]
			base = base[:i]
		}
		if s, ok := exactStubs[name]; ok {
			res = s
		} else if s, ok := exactStubs[base]; ok {
			res = s
		} else {
			for _, ps := range prefixStubs {
				if strings.HasPrefix(name, ps.prefix) {
					res = ps.fn(name)
					if res != nil {
						break
					}
				}
			}
		}
		if res != nil {
			inner := res
			nm := name
			res = func(fr *frame, args []value) value {
				fr.i.p.noteStub(nm)
				return inner(fr, args)
			}
		}
	}
	if res == nil {
		ld.stubCache.Store(fn, noStub{})
		return nil
	}
	ld.stubCache.Store(fn, res)
	return res
}

func (p *pathCtx) noteStub(name string) {
	if p.stubSeen == nil {
		p.stubSeen = map[string]bool{}
	}
	if p.stubSeen[name] {
		return
	}
	p.stubSeen[name] = true
	p.ex.mu.Lock()
	p.ex.stubsUsed[name] = true
	p.ex.mu.Unlock()
}

func (ld *Loaded) namedType(pkg, name string) types.Type {
	for _, sp := range ld.prog.AllPackages() {
		if sp.Pkg.Path() == pkg {
			if o := sp.Pkg.Scope().Lookup(name); o != nil {
				return o.Type()
			}
		}
	}
	return nil
}

func resultType(fr *frame, idx int) types.Type {
	res := fr.fn.Signature.Results()
	return res.At(idx).Type()
}

func nilError() value { return iface{} }

// mkError builds an error value of the real type *errors.errorString.
func (i *interpreter) mkError(msg value) value {
	t := i.ld.namedType("errors", "errorString")
	var cell value = structure{msg}
	return iface{t: types.NewPointer(t), v: &cell}
}

// mkWrapError builds an error value of the real type *fmt.wrapError.
func (i *interpreter) mkWrapError(msg value, inner value) value {
	t := i.ld.namedType("fmt", "wrapError")
	var cell value = structure{msg, inner}
	return iface{t: types.NewPointer(t), v: &cell}
}

func goString(v value) (string, bool) {
	s, ok := v.(string)
	return s, ok
}

func sliceOfStrings(xs []string) value {
	out := make([]value, len(xs))
	for i, s := range xs {
		out[i] = s
	}
	return out
}

// callMethodByName invokes method name on the dynamic value of an interface, if present.
func (i *interpreter) callMethodByName(x iface, name string, args ...value) (value, bool) {
	if x.t == nil {
		return nil, false
	}
	ms := i.prog.MethodSets.MethodSet(x.t)
	for k := 0; k < ms.Len(); k++ {
		sel := ms.At(k)
		if sel.Obj().Name() == name {
			fn := i.prog.MethodValue(sel)
			if fn == nil {
				return nil, false
			}
			return call(i, nil, 0, fn, append([]value{x.v}, args...)), true
		}
	}
	return nil, false
}

func init() {
	st := exactStubs

	// ---------------- errors ----------------
	st["errors.Unwrap"] = func(fr *frame, args []value) value {
		e := args[0].(iface)
		if r, ok := fr.i.callMethodByName(e, "Unwrap"); ok {
			if ri, ok := r.(iface); ok {
				return ri
			}
		}
		return iface{}
	}
	st["errors.Is"] = func(fr *frame, args []value) value {
		err, target := args[0].(iface), args[1].(iface)
		return fr.i.errorsIs(err, target, 0)
	}
	st["errors.As"] = func(fr *frame, args []value) value {
		err := args[0].(iface)
		target := args[1].(iface)
		return fr.i.errorsAs(err, target)
	}

	// ---------------- fmt ----------------
	fmtString := func(fr *frame, format value, a []value) value {
		p := fr.i.p
		p.fmtSeq++
		f, _ := goString(format)
		key := fmt.Sprintf("⟦fmt#%d:%s⟧", p.fmtSeq, f)
		if p.fmtArgs == nil {
			p.fmtArgs = map[string][]value{}
		}
		p.fmtArgs[key] = a
		return key
	}
	st["fmt.Sprintf"] = func(fr *frame, args []value) value {
		return fmtString(fr, args[0], args[1].([]value))
	}
	st["fmt.Sprint"] = func(fr *frame, args []value) value { return fmtString(fr, "", args[0].([]value)) }
	st["fmt.Sprintln"] = func(fr *frame, args []value) value { return fmtString(fr, "", args[0].([]value)) }
	st["fmt.Errorf"] = func(fr *frame, args []value) value {
		a := args[1].([]value)
		msg := fmtString(fr, args[0], a)
		f, _ := goString(args[0])
		if wi := strings.Index(f, "%w"); wi >= 0 {
			// find which operand %w refers to
			n := 0
			for k := 0; k+1 < len(f) && k < wi; k++ {
				if f[k] == '%' {
					if f[k+1] == '%' {
						k++
						continue
					}
					n++
				}
			}
			if n < len(a) {
				if inner, ok := a[n].(iface); ok {
					return fr.i.mkWrapError(msg, inner)
				}
			}
		}
		return fr.i.mkError(msg)
	}
	for _, n := range []string{"fmt.Fprintf", "fmt.Fprintln", "fmt.Fprint", "fmt.Printf", "fmt.Println", "fmt.Print"} {
		st[n] = func(fr *frame, args []value) value { return tuple{0, nilError()} }
	}

	// ---------------- strings / bytes ----------------
	st["strings.Index"] = func(fr *frame, args []value) value {
		p := fr.i.p
		if a, ok := args[0].(string); ok {
			if b, ok := args[1].(string); ok {
				return strings.Index(a, b)
			}
		}
		sep, ok := args[1].(string)
		if !ok {
			return p.mkInt(p.strIndexOfSym(p.strOf(args[0]), p.strOf(args[1])), types.Int)
		}
		return p.mkInt(p.strIndexOf(p.strOf(args[0]), sep), types.Int)
	}
	st["internal/bytealg.IndexString"] = st["strings.Index"]
	st["strings.IndexByte"] = func(fr *frame, args []value) value {
		p := fr.i.p
		if a, ok := args[0].(string); ok {
			if b, ok := args[1].(byte); ok {
				return strings.IndexByte(a, b)
			}
		}
		c := byte(fr.i.concInt(args[1], "indexbyte-c"))
		return p.mkInt(p.strIndexOf(p.strOf(args[0]), string([]byte{c})), types.Int)
	}
	st["internal/bytealg.IndexByteString"] = st["strings.IndexByte"]
	st["strings.Count"] = func(fr *frame, args []value) value {
		p := fr.i.p
		if a, ok := args[0].(string); ok {
			if b, ok := args[1].(string); ok {
				return strings.Count(a, b)
			}
		}
		sep, ok := args[1].(string)
		if !ok || len(sep) != 1 {
			p.abort("unsupported", "strings.Count with symbolic or multi-byte separator")
		}
		return p.mkInt(p.strCountByte(p.strOf(args[0]), sep[0]), types.Int)
	}
	st["internal/bytealg.CountString"] = func(fr *frame, args []value) value {
		p := fr.i.p
		c := byte(fr.i.concInt(args[1], "count-c"))
		return p.mkInt(p.strCountByte(p.strOf(args[0]), c), types.Int)
	}
	st["bytes.IndexByte"] = func(fr *frame, args []value) value {
		p := fr.i.p
		s := args[0].([]value)
		ct, _ := p.intTerm(args[1])
		ts := p.ts
		r := ts.BV(^uint64(0), 64)
		for i := len(s) - 1; i >= 0; i-- {
			b, _ := p.intTerm(s[i])
			r = ts.Ite(ts.Eq(b, ct), ts.BV(uint64(i), 64), r)
		}
		return p.mkInt(r, types.Int)
	}
	st["internal/bytealg.IndexByte"] = st["bytes.IndexByte"]
	st["bytes.Equal"] = func(fr *frame, args []value) value {
		p := fr.i.p
		a, b := args[0].([]value), args[1].([]value)
		if len(a) != len(b) {
			return false
		}
		r := p.ts.True
		for i := range a {
			r = p.ts.And(r, p.eqTerm(a[i], b[i]))
		}
		return p.mkBool(r)
	}
	// strings.Builder: the accumulated string lives in field 1 (buf) as a string value.
	builderGet := func(recv value) (*value, value) {
		pv := recv.(*value)
		s := (*pv).(structure)
		cur := s[1]
		if _, ok := cur.([]value); ok || cur == nil {
			cur = ""
		}
		return &s[1], cur
	}
	st["(*strings.Builder).String"] = func(fr *frame, args []value) value {
		_, cur := builderGet(args[0])
		return cur
	}
	st["(*strings.Builder).Len"] = func(fr *frame, args []value) value {
		_, cur := builderGet(args[0])
		if s, ok := cur.(string); ok {
			return len(s)
		}
		return fr.i.p.strLen(cur.(symStr))
	}
	st["(*strings.Builder).Grow"] = func(fr *frame, args []value) value { return nil }
	st["(*strings.Builder).Reset"] = func(fr *frame, args []value) value {
		slot, _ := builderGet(args[0])
		*slot = ""
		return nil
	}
	st["(*strings.Builder).WriteString"] = func(fr *frame, args []value) value {
		slot, cur := builderGet(args[0])
		p := fr.i.p
		*slot = p.strConcat(p.strOf(cur), p.strOf(args[1]))
		n := value(0)
		if s, ok := args[1].(string); ok {
			n = len(s)
		} else {
			n = p.strLen(args[1].(symStr))
		}
		return tuple{n, nilError()}
	}
	st["(*strings.Builder).Write"] = func(fr *frame, args []value) value {
		slot, cur := builderGet(args[0])
		p := fr.i.p
		bs := args[1].([]value)
		*slot = p.strConcat(p.strOf(cur), p.strOf(p.bytesToStr(bs)))
		return tuple{len(bs), nilError()}
	}
	st["(*strings.Builder).WriteByte"] = func(fr *frame, args []value) value {
		slot, cur := builderGet(args[0])
		p := fr.i.p
		b := p.bytesToStr([]value{args[1]})
		*slot = p.strConcat(p.strOf(cur), p.strOf(b))
		return nilError()
	}
	st["(*strings.Builder).WriteRune"] = func(fr *frame, args []value) value {
		slot, cur := builderGet(args[0])
		p := fr.i.p
		r := rune(fr.i.concInt(args[1], "writerune"))
		*slot = p.strConcat(p.strOf(cur), p.strOf(string(r)))
		return tuple{len(string(r)), nilError()}
	}

	for _, n := range []string{"internal/stringslite.Clone", "strings.Clone", "strconv.cloneString"} {
		st[n] = func(fr *frame, args []value) value { return args[0] }
	}

	// ---------------- sort ----------------
	st["sort.Slice"] = func(fr *frame, args []value) value {
		xs := args[0].(iface).v.([]value)
		less := args[1]
		// insertion sort calling the real less closure; swaps act on the slice in place
		for i := 1; i < len(xs); i++ {
			for j := i; j > 0; j-- {
				r := call(fr.i, fr, 0, less, []value{j, j - 1})
				var lt bool
				switch b := r.(type) {
				case bool:
					lt = b
				case symBool:
					lt = fr.i.p.branch(b.t, "sort-less")
				}
				if !lt {
					break
				}
				xs[j], xs[j-1] = xs[j-1], xs[j]
			}
		}
		return nil
	}
	st["sort.Strings"] = func(fr *frame, args []value) value {
		xs := args[0].([]value)
		for i := 1; i < len(xs); i++ {
			for j := i; j > 0; j-- {
				r := binop(fr.i, token.LSS, nil, xs[j], xs[j-1])
				var lt bool
				switch b := r.(type) {
				case bool:
					lt = b
				case symBool:
					lt = fr.i.p.branch(b.t, "sort-less")
				}
				if !lt {
					break
				}
				xs[j], xs[j-1] = xs[j-1], xs[j]
			}
		}
		return nil
	}

	// ---------------- sync ----------------
	st["(*sync.Mutex).Lock"] = func(fr *frame, args []value) value { fr.i.p.lock(args[0].(*value)); return nil }
	st["(*sync.Mutex).Unlock"] = func(fr *frame, args []value) value { fr.i.p.unlock(args[0].(*value)); return nil }
	st["(*sync.Mutex).TryLock"] = func(fr *frame, args []value) value { return fr.i.p.tryLock(args[0].(*value)) }
	st["(*sync.RWMutex).Lock"] = st["(*sync.Mutex).Lock"]
	st["(*sync.RWMutex).Unlock"] = st["(*sync.Mutex).Unlock"]
	st["(*sync.RWMutex).RLock"] = st["(*sync.Mutex).Lock"]
	st["(*sync.RWMutex).RUnlock"] = st["(*sync.Mutex).Unlock"]
	st["(*sync.WaitGroup).Add"] = func(fr *frame, args []value) value {
		fr.i.p.wgAdd(args[0].(*value), int(asInt64(args[1])))
		return nil
	}
	st["(*sync.WaitGroup).Done"] = func(fr *frame, args []value) value { fr.i.p.wgAdd(args[0].(*value), -1); return nil }
	st["(*sync.WaitGroup).Wait"] = func(fr *frame, args []value) value { fr.i.p.wgWait(args[0].(*value)); return nil }
	st["(*sync.Once).Do"] = func(fr *frame, args []value) value {
		k := args[0].(*value)
		if fr.i.p.onces[k] {
			fr.i.p.raceAcquire(k)
			return nil
		}
		fr.i.p.onces[k] = true
		call(fr.i, fr, 0, args[1], nil)
		fr.i.p.raceRelease(k)
		return nil
	}
	st["(*sync.Pool).Get"] = func(fr *frame, args []value) value {
		// struct Pool{noCopy, local, localSize, victim, victimSize, New}
		s := (*args[0].(*value)).(structure)
		newFn := s[len(s)-1]
		if f, ok := newFn.(*ssa.Function); ok && f == nil {
			return iface{}
		}
		return call(fr.i, fr, 0, newFn, nil)
	}
	st["(*sync.Pool).Put"] = func(fr *frame, args []value) value { return nil }

	// ---------------- runtime / os ----------------
	st["runtime.GOROOT"] = func(fr *frame, args []value) value { return "/goroot" }
	st["runtime.Gosched"] = func(fr *frame, args []value) value { fr.i.p.yieldPoint(); return nil }
	st["runtime.KeepAlive"] = func(fr *frame, args []value) value { return nil }
	st["runtime.SetFinalizer"] = func(fr *frame, args []value) value { return nil }
	st["os.Exit"] = func(fr *frame, args []value) value { panic(exitPanic(asInt64(args[0]))) }
	st["os.Getenv"] = func(fr *frame, args []value) value { return "" }
	st["time.Sleep"] = func(fr *frame, args []value) value { fr.i.p.yieldPoint(); return nil }

	// ---------------- uuid / json ----------------
	st["github.com/google/uuid.New"] = func(fr *frame, args []value) value {
		a := make(array, 16)
		for i := range a {
			a[i] = uint8(0)
		}
		return a
	}
	st["(github.com/google/uuid.UUID).String"] = func(fr *frame, args []value) value {
		return "00000000-0000-0000-0000-000000000000"
	}
	st["encoding/json.Marshal"] = func(fr *frame, args []value) value {
		x := args[0].(iface)
		o := &opaque{kind: "json", data: map[string]value{}}
		if m, ok := x.v.(*amap); ok && m != nil {
			for _, e := range m.entries {
				if k, ok := e.key.(string); ok {
					o.data[k] = e.val
				}
			}
		} else {
			o.data["$value"] = x.v
		}
		return tuple{[]value{o}, nilError()}
	}

	st["encoding/json.NewEncoder"] = func(fr *frame, args []value) value {
		var cell value = &opaque{kind: "jsonenc", data: map[string]value{"w": args[0]}}
		return &cell
	}
	st["(*encoding/json.Encoder).Encode"] = func(fr *frame, args []value) value {
		enc := (*args[0].(*value)).(*opaque)
		x := args[1].(iface)
		o := &opaque{kind: "json", data: map[string]value{}}
		if m, ok := x.v.(*amap); ok && m != nil {
			for _, e := range m.entries {
				if k, ok := e.key.(string); ok {
					o.data[k] = e.val
				}
			}
		} else {
			o.data["$value"] = x.v
		}
		if w, ok := enc.data["w"].(iface); ok && w.t != nil {
			fr.i.callMethodByName(w, "Write", []value{o})
		}
		return nilError()
	}

	// ---------------- time ----------------
	st["time.Now"] = func(fr *frame, args []value) value { return fr.i.p.timeNow() }
	st["time.runtimeNano"] = func(fr *frame, args []value) value { return int64(1) }
	newTickChan := func(fr *frame, n int) *schan {
		ch := fr.i.p.makeChan(1)
		ch.ticker = true
		ch.ticksLeft = n
		return ch
	}
	tickBound := func(fr *frame) int {
		if v, ok := fr.i.p.ex.cfg.Params["TICKS"]; ok {
			return v
		}
		return 3
	}
	st["time.NewTicker"] = func(fr *frame, args []value) value {
		var cell value = structure{newTickChan(fr, tickBound(fr)), true}
		return &cell
	}
	st["(*time.Ticker).Stop"] = func(fr *frame, args []value) value {
		s := (*args[0].(*value)).(structure)
		if ch, ok := s[0].(*schan); ok && ch != nil {
			ch.stopped = true
		}
		return nil
	}
	st["(*time.Ticker).Reset"] = func(fr *frame, args []value) value { return nil }
	st["time.After"] = func(fr *frame, args []value) value { return newTickChan(fr, 1) }
	st["time.Tick"] = func(fr *frame, args []value) value { return newTickChan(fr, tickBound(fr)) }
	st["time.Since"] = func(fr *frame, args []value) value {
		fr.i.p.abort("unsupported", "time.Since")
		return nil
	}
}

// timeNow returns a time.Time whose seconds are a fresh symbolic non-decreasing clock reading.
// Representation (go1.23): struct{wall uint64; ext int64; loc *Location}; wall=0 means ext holds
// seconds since year 1.
func (p *pathCtx) timeNow() value {
	ts := p.ts
	const base = 63800000000 // seconds since year 1, roughly 2022
	if step, ok := p.ex.cfg.Params["CLOCKSTEP"]; ok && step == 0 {
		// harness-controlled time: one symbolic origin, advanced only by verifrt.Advance
		if p.clockOrigin == nil {
			p.clock++
			name := fmt.Sprintf("clock!%d", p.clock)
			v := ts.Var(name, 32)
			p.clockOrigin = ts.BvBin(OpBvAdd, ts.Zext(v, 32), ts.BV(base, 64))
			p.nondets = append(p.nondets, nondetRec{Name: name, Kind: "env", Term: ts.Zext(v, 32)})
		}
		cur := p.clockOrigin
		if p.clockOffset != nil {
			cur = ts.BvBin(OpBvAdd, cur, p.clockOffset)
		}
		return structure{uint64(0), p.mkInt(cur, types.Int64), (*value)(nil)}
	}
	p.clock++
	name := fmt.Sprintf("clock!%d", p.clock)
	// 32-bit offset above a fixed base keeps the arithmetic away from overflow corners
	v := ts.Var(name, 32)
	cur := ts.BvBin(OpBvAdd, ts.Zext(v, 32), ts.BV(base, 64))
	if p.lastClock != nil {
		p.assumeQuiet(ts.Cmp(OpBvUle, p.lastClock, cur))
		if step, ok := p.ex.cfg.Params["CLOCKSTEP"]; ok {
			// bounded time between two consecutive clock readings
			p.assumeQuiet(ts.Cmp(OpBvUle, cur, ts.BvBin(OpBvAdd, p.lastClock, ts.BV(uint64(step), 64))))
		}
	}
	p.lastClock = cur
	p.nondets = append(p.nondets, nondetRec{Name: name, Kind: "env", Term: ts.Zext(v, 32)})
	return structure{uint64(0), p.mkInt(cur, types.Int64), (*value)(nil)}
}

// assumeQuiet adds a constraint that is satisfiable by construction.
func (p *pathCtx) assumeQuiet(c *Term) {
	p.addPC(c)
}

func (i *interpreter) errorsIs(err, target iface, depth int) value {
	p := i.p
	for depth < 50 {
		if err.t == nil {
			return false
		}
		if sameType(err.t, target.t) && types.Comparable(err.t) {
			eq := p.eqTerm(err.v, target.v)
			if eq.IsTrue() {
				return true
			}
			if !eq.IsFalse() && p.branch(eq, "errors.Is") {
				return true
			}
		}
		if r, ok := i.callMethodByName(err, "Is", target); ok {
			if b, ok := r.(bool); ok && b {
				return true
			}
		}
		r, ok := i.callMethodByName(err, "Unwrap")
		if !ok {
			return false
		}
		switch u := r.(type) {
		case iface:
			err = u
		case []value:
			for _, e := range u {
				if b, _ := i.errorsIs(e.(iface), target, depth+1).(bool); b {
					return true
				}
			}
			return false
		default:
			return false
		}
		depth++
	}
	return false
}

func (i *interpreter) errorsAs(err iface, target iface) value {
	// target is a non-nil pointer to a type implementing error or to an interface type
	pt, ok := target.t.Underlying().(*types.Pointer)
	if !ok {
		panic(targetPanic{"errors: target must be a non-nil pointer"})
	}
	want := pt.Elem()
	slot := target.v.(*value)
	for depth := 0; depth < 50; depth++ {
		if err.t == nil {
			return false
		}
		if it, ok := want.Underlying().(*types.Interface); ok {
			if types.Implements(err.t, it) {
				*slot = err
				return true
			}
		} else if types.Identical(err.t, want) {
			*slot = err.v
			return true
		}
		r, ok := i.callMethodByName(err, "Unwrap")
		if !ok {
			return false
		}
		u, ok := r.(iface)
		if !ok {
			return false
		}
		err = u
	}
	return false
}

// ---------- prefix stubs ----------

func init() {
	// zap: logging has an empty body; Level() is Info.
	zapStub := func(name string) stubFn {
		return func(fr *frame, args []value) value {
			res := fr.fn.Signature.Results()
			if res.Len() == 0 {
				return nil
			}
			if res.Len() == 1 {
				rt := res.At(0).Type()
				if fr.fn.Signature.Recv() != nil && types.Identical(rt, fr.fn.Signature.Recv().Type()) {
					return args[0]
				}
				if strings.HasSuffix(name, ").Level") {
					return int8(0)
				}
				if strings.HasSuffix(name, ").Sugar") || strings.HasSuffix(name, ").Desugar") || strings.HasSuffix(name, ").With") || strings.HasSuffix(name, ").Named") {
					var cell value = &opaque{kind: "zap"}
					return &cell
				}
				return zero(rt)
			}
			return zero(res)
		}
	}
	prefixStubs = append(prefixStubs,
		prefixStub{"(*go.uber.org/zap.SugaredLogger).", zapStub},
		prefixStub{"(*go.uber.org/zap.Logger).", zapStub},
	)
	exactStubs["go.uber.org/zap.NewNop"] = func(fr *frame, args []value) value {
		var cell value = &opaque{kind: "zap"}
		return &cell
	}
	exactStubs["go.uber.org/zap.S"] = exactStubs["go.uber.org/zap.NewNop"]
	exactStubs["go.uber.org/zap.L"] = exactStubs["go.uber.org/zap.NewNop"]

	// sync/atomic: typed values keep their content in the field named v; function forms take addresses.
	atomicStub := func(name string) stubFn {
		// method on *atomic.T
		dot := strings.LastIndex(name, ").")
		if dot < 0 {
			return nil
		}
		meth := name[dot+2:]
		if i := strings.Index(meth, "["); i >= 0 {
			meth = meth[:i]
		}
		return func(fr *frame, args []value) value {
			recvT := fr.fn.Signature.Recv().Type().(*types.Pointer).Elem()
			st := recvT.Underlying().(*types.Struct)
			idx := -1
			for k := 0; k < st.NumFields(); k++ {
				if st.Field(k).Name() == "v" {
					idx = k
				}
			}
			if idx < 0 {
				panic("atomic stub: no field v in " + recvT.String())
			}
			s := (*args[0].(*value)).(structure)
			slot := &s[idx]
			fr.i.p.yieldPointAtomic()
			fr.i.p.atomicSync(slot)
			switch meth {
			case "Load":
				v := *slot
				if _, isPtr := recvT.Underlying().(*types.Struct); isPtr && strings.Contains(recvT.String(), "atomic.Pointer[") {
					if v == nil {
						return zero(fr.fn.Signature.Results().At(0).Type())
					}
					if _, ok := v.(*value); !ok {
						return zero(fr.fn.Signature.Results().At(0).Type())
					}
				}
				if strings.HasSuffix(recvT.String(), "atomic.Bool") {
					if u, ok := v.(uint32); ok {
						return u != 0
					}
				}
				return v
			case "Store":
				nv := args[1]
				if strings.HasSuffix(recvT.String(), "atomic.Bool") {
					if b, ok := nv.(bool); ok {
						if b {
							nv = uint32(1)
						} else {
							nv = uint32(0)
						}
					}
				}
				*slot = nv
				return nil
			case "Swap":
				old := *slot
				*slot = args[1]
				return old
			case "Add":
				*slot = binop(fr.i, token.ADD, nil, *slot, args[1])
				return *slot
			case "CompareAndSwap":
				old := *slot
				if strings.HasSuffix(recvT.String(), "atomic.Value") {
					oi, _ := old.(iface)
					if fr.i.p.eqTerm(oi, args[1]).IsTrue() {
						*slot = args[2]
						return true
					}
					return false
				}
				if strings.HasSuffix(recvT.String(), "atomic.Bool") {
					ob := false
					if u, ok := old.(uint32); ok {
						ob = u != 0
					}
					if ob == args[1].(bool) {
						if args[2].(bool) {
							*slot = uint32(1)
						} else {
							*slot = uint32(0)
						}
						return true
					}
					return false
				}
				eq := fr.i.p.eqTerm(old, args[1])
				if fr.i.p.branch(eq, "cas") {
					*slot = args[2]
					return true
				}
				return false
			}
			panic("atomic stub: unsupported method " + name)
		}
	}
	prefixStubs = append(prefixStubs, prefixStub{"(*sync/atomic.", atomicStub})
	atomicFn := func(name string) stubFn {
		short := strings.TrimPrefix(name, "sync/atomic.")
		switch {
		case strings.HasPrefix(short, "Load"):
			return func(fr *frame, args []value) value {
				fr.i.p.yieldPointAtomic()
				fr.i.p.atomicSync(args[0].(*value))
				return *args[0].(*value)
			}
		case strings.HasPrefix(short, "Store"):
			return func(fr *frame, args []value) value {
				fr.i.p.yieldPointAtomic()
				fr.i.p.atomicSync(args[0].(*value))
				*args[0].(*value) = args[1]
				return nil
			}
		case strings.HasPrefix(short, "Add"):
			return func(fr *frame, args []value) value {
				fr.i.p.yieldPointAtomic()
				a := args[0].(*value)
				*a = binop(fr.i, token.ADD, nil, *a, args[1])
				return *a
			}
		case strings.HasPrefix(short, "Swap"):
			return func(fr *frame, args []value) value {
				fr.i.p.yieldPointAtomic()
				a := args[0].(*value)
				old := *a
				*a = args[1]
				return old
			}
		case strings.HasPrefix(short, "CompareAndSwap"):
			return func(fr *frame, args []value) value {
				fr.i.p.yieldPointAtomic()
				a := args[0].(*value)
				if fr.i.p.branch(fr.i.p.eqTerm(*a, args[1]), "cas") {
					*a = args[2]
					return true
				}
				return false
			}
		}
		return nil
	}
	prefixStubs = append(prefixStubs, prefixStub{"sync/atomic.", atomicFn})
}

// yieldPointAtomic: atomics are schedule points only when the harness asks for it.
func (p *pathCtx) yieldPointAtomic() {}

// atomicSync orders atomic operations on one cell (acquire + release).
func (p *pathCtx) atomicSync(key interface{}) {
	p.raceAcquire(key)
	p.raceRelease(key)
}

var _ = sort.Strings

// unicode.IsSpace as a formula (the unicode package's range tables are not initialised by the
// engine): the White_Space property of Unicode 15 - Latin-1 cases plus the table's other ranges.
func init() {
	exactStubs["unicode.IsSpace"] = func(fr *frame, args []value) value {
		p := fr.i.p
		ts := p.ts
		r, _ := p.intTerm(args[0])
		eq := func(v uint64) *Term { return ts.Eq(r, ts.BV(v, r.sort)) }
		rng := func(lo, hi uint64) *Term {
			return ts.And(ts.Cmp(OpBvUle, ts.BV(lo, r.sort), r), ts.Cmp(OpBvUle, r, ts.BV(hi, r.sort)))
		}
		t := rng(0x09, 0x0d)
		for _, v := range []uint64{0x20, 0x85, 0xA0, 0x1680, 0x2028, 0x2029, 0x202f, 0x205f, 0x3000} {
			t = ts.Or(t, eq(v))
		}
		t = ts.Or(t, rng(0x2000, 0x200a))
		return p.mkBool(t)
	}
}

// strings.ToLower / ToUpper: for a string whose bytes are all ASCII (a solver-decided branch) the
// result is the per-byte case mapping of the same length; a string with a non-ASCII byte is
// concretised and handed to the real function (Unicode case tables, invalid UTF-8 replacement).
func init() {
	mk := func(lower bool) func(fr *frame, args []value) value {
		return func(fr *frame, args []value) value {
			p := fr.i.p
			ts := p.ts
			if s, ok := args[0].(string); ok {
				if lower {
					return strings.ToLower(s)
				}
				return strings.ToUpper(s)
			}
			s := p.strOf(args[0])
			B := p.viewBytes(s)
			ascii := ts.True
			for i, b := range B {
				in := ts.Cmp(OpBvUlt, ts.BV(uint64(i), 64), s.n)
				ascii = ts.And(ascii, ts.Implies(in, ts.Cmp(OpBvUlt, b, ts.BV(0x80, 8))))
			}
			if !p.branch(ascii, "tolower-ascii") {
				c := p.concretizeString(s)
				if lower {
					return strings.ToLower(c)
				}
				return strings.ToUpper(c)
			}
			lo, hi, d := uint64('A'), uint64('Z'), uint64(0x20)
			if !lower {
				lo, hi = 'a', 'z'
			}
			R := make([]*Term, len(B))
			for i, b := range B {
				isc := ts.And(ts.Cmp(OpBvUle, ts.BV(lo, 8), b), ts.Cmp(OpBvUle, b, ts.BV(hi, 8)))
				var m *Term
				if lower {
					m = ts.BvBin(OpBvAdd, b, ts.BV(d, 8))
				} else {
					m = ts.BvBin(OpBvSub, b, ts.BV(d, 8))
				}
				R[i] = ts.Ite(isc, m, b)
			}
			buf := &symBuf{id: p.newBufID(), name: "case", b: R}
			return p.mkStr(symStr{buf: buf, off: ts.BV(0, 64), n: s.n, max: s.max})
		}
	}
	exactStubs["strings.ToLower"] = mk(true)
	exactStubs["strings.ToUpper"] = mk(false)
}

// time.Since / time.Until through the symbolic clock: Now().Sub(t) and t.Sub(Now()) with the real
// (time.Time).Sub executed from its source.
func init() {
	sub := func(fr *frame, a, b value) value {
		tp := fr.i.prog.ImportedPackage("time")
		if tp == nil {
			fr.i.p.abort("unsupported", "time package not loaded")
		}
		tt := tp.Type("Time").Type()
		if d, ok := wholeSecondsSub(fr, a, b); ok {
			return d
		}
		fn := fr.i.prog.LookupMethod(tt, tp.Pkg, "Sub")
		if fn == nil {
			fr.i.p.abort("unsupported", "time.Time.Sub not found")
		}
		return call(fr.i, fr, token.NoPos, fn, []value{a, b})
	}
	exactStubs["(time.Time).Sub"] = func(fr *frame, args []value) value {
		if d, ok := wholeSecondsSub(fr, args[0], args[1]); ok {
			return d
		}
		return stubDecline{}
	}
	exactStubs["time.Since"] = func(fr *frame, args []value) value { return sub(fr, fr.i.p.timeNow(), args[0]) }
	exactStubs["time.Until"] = func(fr *frame, args []value) value { return sub(fr, args[0], fr.i.p.timeNow()) }
}

// (time.Duration).String of a symbolic duration is only ever logged: a placeholder text.
func init() {
	exactStubs["(time.Duration).String"] = func(fr *frame, args []value) value {
		if d, ok := args[0].(int64); ok {
			return time.Duration(d).String()
		}
		return "<duration>"
	}
}

// wholeSecondsSub: both times come from the engine's clock or verifrt.Unix (wall word 0: no
// nanoseconds, no monotonic reading; seconds within a few decades of each other), so
// t.Sub(u) = (t.sec - u.sec) * 1e9 without the saturation branches of the real method, whose
// division and remainder by 1e9 of a symbolic product no solver here decides in time.
func wholeSecondsSub(fr *frame, a, b value) (value, bool) {
	p := fr.i.p
	ta, ok1 := a.(structure)
	tb, ok2 := b.(structure)
	if !ok1 || !ok2 || len(ta) < 2 || len(tb) < 2 {
		return nil, false
	}
	wa, oka := ta[0].(uint64)
	wb, okb := tb[0].(uint64)
	if !oka || !okb || wa != 0 || wb != 0 {
		return nil, false
	}
	ts := p.ts
	diff := ts.BvBin(OpBvSub, p.i64(ta[1]), p.i64(tb[1]))
	return p.mkInt(ts.BvBin(OpBvMul, diff, ts.BV(1000000000, 64)), types.Int64), true
}
