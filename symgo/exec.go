package main

// Path exploration by re-execution with decision vectors.

import (
	"fmt"
	"os"
	"sort"
	"strings"
	"sync"
	"sync/atomic"
	"time"

	"golang.org/x/tools/go/ssa"
)

type Config struct {
	Property     string
	Tier         string
	Seed         int
	Pkg          string
	Harness      string
	Workers      int
	BranchMs     int
	AssertMs     int
	MaxSteps     int64
	MaxPaths     int64
	Ascii7       bool
	Preempt      int
	NoInitExtra  bool // skip the plan's init_extra package initialisers in this run
	Delays       int // -1: unlimited; otherwise at most this many scheduling choices other than the canonical one per path
	Params       map[string]int
	SymMapOrder  bool
	Debug        bool
	OneShotFirst bool
	CrossCheck   bool
	SitePrefix   string
	Race         bool
}

type decision struct {
	Kind string `json:"k"`
	Val  int64  `json:"v"`
}

type nondetRec struct {
	Name  string
	Kind  string // int, bool, str, choose
	Term  *Term  // int/bool
	Len   *Term  // str
	Bytes []*Term
	Conc  int64 // choose
}

type NondetVal struct {
	Name string `json:"name"`
	Kind string `json:"kind"`
	Int  int64  `json:"int,omitempty"`
	Str  []byte `json:"str,omitempty"` // base64 in JSON
}

type Violation struct {
	Property  string      `json:"property"`
	Harness   string      `json:"harness"`
	Pkg       string      `json:"pkg"`
	Site      string      `json:"site"`
	Msg       string      `json:"msg"`
	Nondets   []NondetVal `json:"nondets"`
	Decisions []decision  `json:"decisions"`
	Notes     []string    `json:"notes,omitempty"`
	Params    map[string]int `json:"params,omitempty"`
	Confirmed bool        `json:"confirmed"`
	ReplayOut string      `json:"replay_output,omitempty"`
}

type siteStat struct {
	Evaluated  int64 // times reached
	Symbolic   int64 // times the condition was symbolic (a real query)
	Discharged int64
	SymDischarged int64 // discharged by an unsat answer
	Violated   int64
	Unknown    int64
}

type Explorer struct {
	cfg     Config
	prog    *ssa.Program
	loader  *Loaded
	harness *ssa.Function

	mu      sync.Mutex
	cond    *sync.Cond
	work    []workItem
	crossDone int64
	busy    int
	stopped bool

	paths       int64
	pathsDone   int64
	infeasible  int64
	decisions   int64
	steps       int64
	unknownBr   int64
	truncated   int64
	stoppedEarly bool
	sites       map[string]*siteStat
	reach       map[string]int64
	reachSample map[string][]NondetVal
	violations  []*Violation
	inconcl     []string
	funcs       map[string]bool
	maxDepth    int
	samples     []string
	satq, unsatq, unkq int64
	regexProgs  map[string]string
	stubsUsed   map[string]bool
	t0          time.Time
}

// stopAllRuns is set once some run of the plan has three counterexamples.
var stopAllRuns int32

// pathSem bounds the number of paths executing at once across all runs.
var pathSem = make(chan struct{}, 16)

type pathAbort struct {
	kind string // done, infeasible, unsupported, budget, kill, violation-stop
	msg  string
}

type worker struct {
	id    int
	inc   *Solver // incremental
	one   *Solver // one-shot
	cross *Solver // second solver (z3 4.8.12) for the thorough tier's re-check of unsat answers
}

type pathCtx struct {
	ex     *Explorer
	w      *worker
	interp *interpreter
	ts     *TermStore

	prefix []decision
	pos    int
	trace  []decision

	pc        []*Term
	known     map[int]bool // term id -> truth value known from pc
	emitted   map[int]bool
	nondets   []nondetRec
	nondetSeq int
	notes     []string

	bufSeq    int
	constBufs map[string]*symBuf
	viewCache map[viewKey][]*Term

	steps     int64
	dead      bool
	unknownPC bool
	model     map[string]uint64 // a model of pc, if known
	modelMemo map[int]uint64

	// scheduler
	threads      []*thread
	cur          *thread
	blockedOrder []*thread
	mutexes      map[*value]*smutex
	waitgroups   map[*value]*swg
	onces        map[*value]bool
	preemptions  int
	delays       int
	chanSeq      int
	finished     chan pathAbort

	clock     int // number of time.Now calls
	lastClock *Term
	clockOrigin *Term
	clockOffset *Term
	obs       []string
	regexCache map[string]*regexObj
	extra     map[string]value
	rtCache   map[rtKey]*regexTables
	regexApps []regexApp
	stubSeen  map[string]bool
	fmtSeq    int
	fmtArgs   map[string][]value
	counters  map[string]int
	fifos     map[string]*fifoState
	race      *raceState
	sinks     map[string]*sinkState
}

func NewExplorer(cfg Config, ld *Loaded) *Explorer {
	ex := &Explorer{cfg: cfg, prog: ld.prog, loader: ld,
		sites: map[string]*siteStat{}, reach: map[string]int64{}, reachSample: map[string][]NondetVal{},
		funcs: map[string]bool{}, regexProgs: map[string]string{}, stubsUsed: map[string]bool{}}
	ex.cond = sync.NewCond(&ex.mu)
	return ex
}

func (ex *Explorer) site(id string) *siteStat {
	ex.mu.Lock()
	defer ex.mu.Unlock()
	s := ex.sites[id]
	if s == nil {
		s = &siteStat{}
		ex.sites[id] = s
	}
	return s
}

func (ex *Explorer) Run() {
	ex.t0 = time.Now()
	ex.work = []workItem{{}}
	if os.Getenv("SYMGO_PROGRESS") != "" {
		stop := make(chan struct{})
		defer close(stop)
		go func() {
			for {
				select {
				case <-stop:
					return
				case <-time.After(10 * time.Second):
					ex.mu.Lock()
					fmt.Fprintf(os.Stderr, "[progress %s] paths=%d done=%d queue=%d steps=%d %.0fs\n", ex.cfg.Harness, ex.paths, ex.pathsDone, len(ex.work), ex.steps, time.Since(ex.t0).Seconds())
					ex.mu.Unlock()
				}
			}
		}()
	}
	var wg sync.WaitGroup
	for i := 0; i < ex.cfg.Workers; i++ {
		wg.Add(1)
		go func(id int) {
			defer wg.Done()
			w := &worker{id: id}
			defer func() {
				if w.inc != nil {
					w.inc.Close()
				}
				if w.one != nil {
					w.one.Close()
				}
				if w.cross != nil {
					w.cross.Close()
				}
			}()
			for {
				ex.mu.Lock()
				for len(ex.work) == 0 && ex.busy > 0 && !ex.stopped {
					ex.cond.Wait()
				}
				if atomic.LoadInt32(&stopAllRuns) == 1 && !ex.stopped {
					ex.stopped = true
					ex.stoppedEarly = true
				}
				if len(ex.work) == 0 || ex.stopped {
					ex.mu.Unlock()
					ex.cond.Broadcast()
					return
				}
				wi := ex.work[len(ex.work)-1]
				ex.work[len(ex.work)-1] = workItem{}
				ex.work = ex.work[:len(ex.work)-1]
				pre := wi.prefix()
				ex.busy++
				ex.mu.Unlock()

				pathSem <- struct{}{}
				if w.inc == nil {
					var err error
					w.inc, err = NewSolver(solverBin)
					if err != nil {
						ex.addInconclusive("cannot start solver: " + err.Error())
					}
					w.one, _ = NewSolver(solverBin)
				}
				if w.inc != nil && w.one != nil {
					ex.runPath(w, pre)
				}
				<-pathSem

				ex.mu.Lock()
				ex.busy--
				if ex.cfg.MaxPaths > 0 && ex.paths >= ex.cfg.MaxPaths && !ex.stopped {
					ex.stopped = true
					ex.inconcl = append(ex.inconcl, fmt.Sprintf("path budget %d exhausted", ex.cfg.MaxPaths))
				}
				ex.mu.Unlock()
				ex.cond.Broadcast()
			}
		}(i)
	}
	wg.Wait()
}

func (ex *Explorer) addInconclusive(msg string) {
	ex.mu.Lock()
	defer ex.mu.Unlock()
	for _, m := range ex.inconcl {
		if m == msg {
			return
		}
	}
	if len(ex.inconcl) < 50 {
		ex.inconcl = append(ex.inconcl, msg)
	}
}

// workItem is a decision prefix to explore: the decisions of the path that offered the alternative
// (shared with that path's trace, which is append-only) followed by the alternative decision.
type workItem struct {
	pre  []decision
	last decision
	has  bool
}

func (wi workItem) prefix() []decision {
	if !wi.has {
		return nil
	}
	out := make([]decision, len(wi.pre)+1)
	copy(out, wi.pre)
	out[len(wi.pre)] = wi.last
	return out
}

func (ex *Explorer) pushAlt(trace []decision, d decision) {
	wi := workItem{pre: trace[:len(trace):len(trace)], last: d, has: true}
	ex.mu.Lock()
	ex.work = append(ex.work, wi)
	ex.mu.Unlock()
	ex.cond.Signal()
}

func (ex *Explorer) runPath(w *worker, prefix []decision) {
	atomic.AddInt64(&ex.paths, 1)
	p := &pathCtx{ex: ex, w: w, ts: NewTermStore(), prefix: prefix,
		known: map[int]bool{}, emitted: map[int]bool{}, constBufs: map[string]*symBuf{},
		viewCache: map[viewKey][]*Term{}, mutexes: map[*value]*smutex{}, waitgroups: map[*value]*swg{},
		onces: map[*value]bool{}, finished: make(chan pathAbort, 1), regexCache: map[string]*regexObj{},
		extra: map[string]value{}}
	if w.inc.dead {
		w.inc.Close()
		w.inc, _ = NewSolver(solverBin)
	}
	if w.one != nil && w.one.dead {
		w.one.Close()
		w.one, _ = NewSolver(solverBin)
	}
	w.inc.Send("(push 1)\n")
	if ex.cfg.Race {
		p.race = &raceState{cells: map[interface{}]*cellShadow{}, sync: map[interface{}]vclock{}}
	}
	p.interp = newInterpreter(ex.loader, p)

	main := p.newThread("main", false)
	p.cur = main
	go func() {
		defer p.threadExit(main)
		p.interp.runInits()
		call(p.interp, nil, 0, ex.harness, nil)
	}()
	res := <-p.finished
	p.killThreads()
	w.inc.Send("(pop 1)\n")

	atomic.AddInt64(&ex.steps, p.steps)
	atomic.AddInt64(&ex.decisions, int64(len(p.trace)))
	ex.mu.Lock()
	if len(p.trace) > ex.maxDepth {
		ex.maxDepth = len(p.trace)
	}
	for f := range p.interp.funcsEntered {
		ex.funcs[f] = true
	}
	ex.mu.Unlock()
	switch res.kind {
	case "done":
		atomic.AddInt64(&ex.pathsDone, 1)
	case "infeasible":
		atomic.AddInt64(&ex.infeasible, 1)
	case "stop":
		atomic.AddInt64(&ex.pathsDone, 1)
	default:
		ex.addInconclusive(res.kind + ": " + res.msg)
	}
	if ex.cfg.Debug {
		fmt.Fprintf(os.Stderr, "[w%d] path %s %s depth=%d steps=%d\n", w.id, res.kind, res.msg, len(p.trace), p.steps)
	}
}

// ---------- solver plumbing ----------

func (p *pathCtx) emit(ts ...*Term) {
	var sb strings.Builder
	emitDefs(&sb, p.emitted, ts...)
	if sb.Len() > 0 {
		p.w.inc.Send(sb.String())
	}
}

func (p *pathCtx) addPC(c *Term) {
	if c.IsTrue() {
		return
	}
	p.pc = append(p.pc, c)
	if p.model != nil && evalTerm(c, p.model, p.modelMemo) != 1 {
		p.model = nil
	}
	p.known[c.id] = true
	if c.op == OpNot {
		p.known[c.args[0].id] = false
	} else {
		n := p.ts.Not(c)
		p.known[n.id] = false
	}
	if c.op == OpAnd {
		// record conjuncts
		p.noteConj(c, 0)
	}
	p.emit(c)
	p.w.inc.Send("(assert " + c.ref() + ")\n")
}

func (p *pathCtx) noteConj(c *Term, d int) {
	if c.op == OpAnd && d < 50 {
		p.noteConj(c.args[0], d+1)
		p.noteConj(c.args[1], d+1)
		return
	}
	p.known[c.id] = true
	if c.op == OpNot {
		p.known[c.args[0].id] = false
	}
}

// check asks whether pc ∧ c is satisfiable.
func (p *pathCtx) check(c *Term, timeoutMs int) SatResult {
	if c.IsFalse() {
		return Unsat
	}
	if v, ok := p.known[c.id]; ok {
		if v {
			if p.unknownPC {
				return Unknown
			}
			return Sat
		}
		return Unsat
	}
	if p.model != nil && evalTerm(c, p.model, p.modelMemo) == 1 {
		return Sat
	}
	t0 := time.Now()
	p.emit(c)
	te := time.Since(t0)
	p.w.inc.Send("(push 1)\n(assert " + c.ref() + ")\n")
	r, msg := p.w.inc.CheckSat(timeoutMs)
	if r == Sat && p.model == nil {
		// remember a model of pc (it also satisfies c; valid for pc alone)
		p.model = p.getModel(p.w.inc)
		p.modelMemo = map[int]uint64{}
	}
	p.w.inc.Send("(pop 1)\n")
	p.count(r)
	if p.ex.cfg.Debug {
		fmt.Fprintf(os.Stderr, "  check %v emit=%.2fs total=%.2fs terms=%d%s\n", r, te.Seconds(), time.Since(t0).Seconds(), p.ts.next, p.interp.where())
	}
	if msg != "" && p.ex.cfg.Debug {
		fmt.Fprintln(os.Stderr, "solver:", msg)
	}
	if r == Unknown && msg != "" && strings.Contains(msg, "(error") {
		p.ex.addInconclusive("solver error: " + msg)
	}
	return r
}

func (p *pathCtx) count(r SatResult) {
	switch r {
	case Sat:
		atomic.AddInt64(&p.ex.satq, 1)
	case Unsat:
		atomic.AddInt64(&p.ex.unsatq, 1)
	default:
		atomic.AddInt64(&p.ex.unkq, 1)
	}
}

// checkKeepModel is check for the side the cached model does not take: the cached model stays.
func (p *pathCtx) checkKeepModel(c *Term, timeoutMs int) SatResult {
	saved, memo := p.model, p.modelMemo
	if saved != nil {
		p.model = map[string]uint64{} // non-nil placeholder so check() does not overwrite
		p.modelMemo = map[int]uint64{}
		if c.IsConst() {
			p.model, p.modelMemo = saved, memo
			return p.check(c, timeoutMs)
		}
		// evaluate under placeholder would be wrong; bypass model shortcut
		p.model = nil
		r := p.checkNoModel(c, timeoutMs)
		p.model, p.modelMemo = saved, memo
		return r
	}
	return p.check(c, timeoutMs)
}

func (p *pathCtx) checkNoModel(c *Term, timeoutMs int) SatResult {
	if c.IsFalse() {
		return Unsat
	}
	if v, ok := p.known[c.id]; ok {
		if v {
			return Sat
		}
		return Unsat
	}
	p.emit(c)
	p.w.inc.Send("(push 1)\n(assert " + c.ref() + ")\n")
	r, msg := p.w.inc.CheckSat(timeoutMs)
	p.w.inc.Send("(pop 1)\n")
	p.count(r)
	if r == Unknown && msg != "" && strings.Contains(msg, "(error") {
		p.ex.addInconclusive("solver error: " + msg)
	}
	return r
}

// checkModel is like check but returns a model on Sat.
func (p *pathCtx) checkModel(c *Term, timeoutMs int) (SatResult, map[string]uint64) {
	t0 := time.Now()
	defer func() {
		if p.ex.cfg.Debug {
			fmt.Fprintf(os.Stderr, "  checkModel total=%.2fs terms=%d%s\n", time.Since(t0).Seconds(), p.ts.next, p.interp.where())
		}
	}()
	p.emit(c)
	p.w.inc.Send("(push 1)\n(assert " + c.ref() + ")\n")
	r, _ := p.w.inc.CheckSat(timeoutMs)
	var model map[string]uint64
	if r == Sat {
		model = p.getModel(p.w.inc)
	}
	p.w.inc.Send("(pop 1)\n")
	p.count(r)
	return r, model
}

func (p *pathCtx) getModel(s *Solver) map[string]uint64 {
	var names []string
	for _, v := range p.ts.vars {
		if p.emitted[v.id] || s != p.w.inc {
			names = append(names, v.name)
		}
	}
	if len(names) == 0 {
		return map[string]uint64{}
	}
	m, err := s.GetValues(names)
	if err != nil {
		p.ex.addInconclusive("get-value failed: " + err.Error())
		return map[string]uint64{}
	}
	return m
}

// oneShotText renders pc ∧ c as a standalone script.
func (p *pathCtx) oneShotText(c *Term) (string, []string) {
	var sb strings.Builder
	done := map[int]bool{}
	roots := append(append([]*Term{}, p.pc...), c)
	emitDefs(&sb, done, roots...)
	for _, t := range roots {
		sb.WriteString("(assert " + t.ref() + ")\n")
	}
	var names []string
	for _, v := range p.ts.vars {
		if done[v.id] {
			names = append(names, v.name)
		}
	}
	return sb.String(), names
}

// prove decides pc ⊨ c. Returns Unsat if proven, Sat with model if refuted.
func (p *pathCtx) prove(c *Term) (SatResult, map[string]uint64) {
	neg := p.ts.Not(c)
	cfg := p.ex.cfg
	if !cfg.OneShotFirst {
		t := cfg.AssertMs
		if t > 20000 {
			t = 20000
		}
		r, m := p.checkModel(neg, t)
		if r != Unknown {
			if r == Unsat && cfg.CrossCheck {
				if !p.crossCheck(neg) {
					return Unknown, nil
				}
			}
			return r, m
		}
	}
	text, names := p.oneShotText(neg)
	r, msg := p.w.one.OneShot(text, cfg.AssertMs)
	p.count(r)
	if msg != "" && strings.Contains(msg, "(error") {
		p.ex.addInconclusive("solver error: " + msg)
		return Unknown, nil
	}
	if r == Sat {
		m, err := p.w.one.GetValues(names)
		if err != nil {
			return Unknown, nil
		}
		return Sat, m
	}
	if r == Unsat && cfg.CrossCheck {
		if !p.crossCheck(neg) {
			return Unknown, nil
		}
	}
	return r, nil
}

var crossBin = "z3"

const crossCheckPerRun = 16
var crossChecked, crossDisagree, crossTimeout int64

// crossCheck re-submits an unsat query to the second solver (one process per worker). A "sat"
// from the second solver is a disagreement (the obligation becomes inconclusive); a time-out of
// the second solver is counted and leaves the first solver's answer standing.
func (p *pathCtx) crossCheck(neg *Term) bool {
	// the second solver is much slower on some queries (40-70 s against 0.3 s): each run
	// re-checks its first crossCheckPerRun unsat answers, the evidence reports how many
	if atomic.AddInt64(&p.ex.crossDone, 1) > crossCheckPerRun {
		return true
	}
	text, _ := p.oneShotText(neg)
	w := p.w
	if w.cross == nil || w.cross.dead {
		s, err := NewSolver(crossBin)
		if err != nil {
			p.ex.addInconclusive("cross-check solver unavailable")
			return false
		}
		w.cross = s
	}
	t := p.ex.cfg.AssertMs
	if t > 60000 {
		t = 60000
	}
	t0 := time.Now()
	r, msg := w.cross.OneShot(text, t)
	if p.ex.cfg.Debug {
		fmt.Fprintf(os.Stderr, "  cross-check %v %.2fs\n", r, time.Since(t0).Seconds())
	}
	atomic.AddInt64(&crossChecked, 1)
	switch r {
	case Unsat:
		return true
	case Unknown:
		if !strings.Contains(msg, "(error") {
			atomic.AddInt64(&crossTimeout, 1)
			return true
		}
	}
	atomic.AddInt64(&crossDisagree, 1)
	p.ex.addInconclusive(fmt.Sprintf("cross-check (second solver) did not confirm unsat: %v %s", r, msg))
	return false
}

// ---------- decisions ----------

func (p *pathCtx) abort(kind, msg string) {
	panic(pathAbort{kind, msg})
}

func (p *pathCtx) record(kind string, v int64) {
	p.trace = append(p.trace, decision{kind, v})
	if len(p.trace) > maxDecisionDepth {
		// a path that keeps deciding (a loop over schedule points or symbolic branches that the
		// bounds do not cut) is cut here and reported as an incomplete exploration
		p.abort("budget", fmt.Sprintf("more than %d decisions on one path", maxDecisionDepth))
	}
}

const maxDecisionDepth = 60000

// branch decides a symbolic condition; returns the side taken and extends the pc.
func (p *pathCtx) branch(c *Term, why string) bool {
	if c.IsConst() {
		return c.val == 1
	}
	if v, ok := p.known[c.id]; ok {
		return v
	}
	nc := p.ts.Not(c)
	if p.pos < len(p.prefix) {
		d := p.prefix[p.pos]
		p.pos++
		p.trace = append(p.trace, d)
		if d.Val == 1 {
			p.addPC(c)
			return true
		}
		p.addPC(nc)
		return false
	}
	p.pos++
	var rt, rf SatResult
	if p.model != nil && evalTerm(c, p.model, p.modelMemo) == 0 {
		// the known model of pc takes the false side: only the true side needs the solver
		rf = Sat
		if p.unknownPC {
			rf = Unknown
		}
		rt = p.checkKeepModel(c, p.ex.cfg.BranchMs)
		goto decided
	}
	rt = p.check(c, p.ex.cfg.BranchMs)
	if rt == Unsat {
		rf = Sat // pc is feasible by invariant
		if p.unknownPC {
			rf = Unknown
		}
	} else {
		rf = p.checkKeepModel(nc, p.ex.cfg.BranchMs)
	}
decided:
	if rt == Unknown || rf == Unknown {
		atomic.AddInt64(&p.ex.unknownBr, 1)
	}
	canT, canF := rt != Unsat, rf != Unsat
	switch {
	case canT && canF:
		if rt == Unknown || rf == Unknown {
			p.unknownPC = true
		}
		p.ex.pushAlt(p.trace, decision{"br:" + why, 0})
		p.record("br:"+why, 1)
		p.addPC(c)
		return true
	case canT:
		p.record("br:"+why, 1)
		p.addPC(c)
		return true
	case canF:
		p.record("br:"+why, 0)
		p.addPC(nc)
		return false
	}
	p.abort("infeasible", "both sides infeasible")
	return false
}

// concretize forks over all feasible values of t.
func (p *pathCtx) concretize(t *Term, why string) uint64 {
	if t.IsConst() {
		return t.val
	}
	ts := p.ts
	if p.pos < len(p.prefix) {
		d := p.prefix[p.pos]
		p.pos++
		p.trace = append(p.trace, d)
		p.addPC(ts.Eq(t, ts.BV(uint64(d.Val), t.sort)))
		return uint64(d.Val) & mask(t.sort)
	}
	p.pos++
	var vals []uint64
	excl := ts.True
	name := fmt.Sprintf("cz!%d", len(p.trace))
	probe := ts.Var(name, t.sort)
	for {
		q := ts.And(excl, ts.Eq(probe, t))
		r, m := p.checkModel(q, p.ex.cfg.BranchMs)
		if r == Unknown {
			p.abort("unknown", "concretize "+why+": solver unknown")
		}
		if r == Unsat {
			break
		}
		v := m[name] & mask(t.sort)
		vals = append(vals, v)
		excl = ts.And(excl, ts.Not(ts.Eq(t, ts.BV(v, t.sort))))
		if len(vals) > 300 {
			p.abort("budget", "concretize "+why+": more than 300 values")
		}
	}
	if len(vals) == 0 {
		p.abort("infeasible", "concretize: no value")
	}
	sort.Slice(vals, func(i, j int) bool { return vals[i] < vals[j] })
	for _, v := range vals[1:] {
		p.ex.pushAlt(p.trace, decision{"cz:" + why, int64(v)})
	}
	p.record("cz:"+why, int64(vals[0]))
	p.addPC(ts.Eq(t, ts.BV(vals[0], t.sort)))
	return vals[0]
}

// choose is a pure (non-solver) n-way decision.
func (p *pathCtx) choose(n int, why string) int {
	if n <= 1 {
		return 0
	}
	if p.pos < len(p.prefix) {
		d := p.prefix[p.pos]
		p.pos++
		p.trace = append(p.trace, d)
		return int(d.Val)
	}
	p.pos++
	for i := n - 1; i >= 1; i-- {
		p.ex.pushAlt(p.trace, decision{"ch:" + why, int64(i)})
	}
	p.record("ch:"+why, 0)
	return 0
}

// chooseFirstOnly takes option 0 without offering alternatives (used when a bound forbids them).
func (p *pathCtx) chooseFixed(v int, why string) int {
	if p.pos < len(p.prefix) {
		d := p.prefix[p.pos]
		p.pos++
		p.trace = append(p.trace, d)
		return int(d.Val)
	}
	p.pos++
	p.record("ch:"+why, int64(v))
	return v
}

// ---------- obligations ----------

func (p *pathCtx) modelNondets(model map[string]uint64) []NondetVal {
	memo := map[int]uint64{}
	var out []NondetVal
	for _, nd := range p.nondets {
		switch nd.Kind {
		case "int":
			v := evalTerm(nd.Term, model, memo)
			out = append(out, NondetVal{Name: nd.Name, Kind: "int", Int: signExt(v, nd.Term.sort)})
		case "env":
			// environment reading (clock): informative only, the native replay uses the real clock
			v := evalTerm(nd.Term, model, memo)
			out = append(out, NondetVal{Name: nd.Name, Kind: "env", Int: int64(v)})
		case "bool":
			out = append(out, NondetVal{Name: nd.Name, Kind: "bool", Int: int64(evalTerm(nd.Term, model, memo))})
		case "choose":
			out = append(out, NondetVal{Name: nd.Name, Kind: "choose", Int: nd.Conc})
		case "str":
			n := int(evalTerm(nd.Len, model, memo))
			if n > len(nd.Bytes) {
				n = len(nd.Bytes)
			}
			b := make([]byte, n)
			for i := 0; i < n; i++ {
				b[i] = byte(evalTerm(nd.Bytes[i], model, memo))
			}
			out = append(out, NondetVal{Name: nd.Name, Kind: "str", Str: b})
		}
	}
	return out
}

func (p *pathCtx) violation(site, msg string, model map[string]uint64) {
	v := &Violation{Property: p.ex.cfg.Property, Harness: p.ex.cfg.Harness, Pkg: p.ex.cfg.Pkg, Site: site, Msg: msg,
		Nondets: p.modelNondets(model), Decisions: append([]decision{}, p.trace...), Notes: append([]string{}, p.notes...),
		Params: p.ex.cfg.Params}
	p.ex.mu.Lock()
	n := 0
	for _, o := range p.ex.violations {
		if o.Site == site {
			n++
		}
	}
	if n < 3 {
		p.ex.violations = append(p.ex.violations, v)
	}
	if len(p.ex.violations) >= 3 && !p.ex.stopped {
		// enough counterexamples for this run: do not spend the budget on the remaining paths,
		// here or in the plan's other runs
		p.ex.stopped = true
		p.ex.stoppedEarly = true
		atomic.StoreInt32(&stopAllRuns, 1)
	}
	p.ex.mu.Unlock()
	p.ex.cond.Broadcast()
}

// assert checks an obligation on the current path.
func (p *pathCtx) assert(site string, c *Term) {
	if !p.siteWanted(site) {
		return
	}
	st := p.ex.site(site)
	atomic.AddInt64(&st.Evaluated, 1)
	if c.IsTrue() {
		atomic.AddInt64(&st.Discharged, 1)
		return
	}
	if v, ok := p.known[c.id]; ok && v {
		atomic.AddInt64(&st.Discharged, 1)
		return
	}
	atomic.AddInt64(&st.Symbolic, 1)
	var r SatResult
	var m map[string]uint64
	if c.IsFalse() {
		r, m = p.checkModel(p.ts.True, p.ex.cfg.AssertMs)
	} else {
		r, m = p.prove(c)
	}
	switch r {
	case Unsat:
		atomic.AddInt64(&st.Discharged, 1)
		atomic.AddInt64(&st.SymDischarged, 1)
		p.addPC(c)
	case Sat:
		atomic.AddInt64(&st.Violated, 1)
		p.violation(site, "assertion can fail", m)
		// continue under the assumption that it held, if possible
		if c.IsFalse() || p.check(c, p.ex.cfg.BranchMs) != Sat {
			p.abort("stop", "violation at "+site)
		}
		p.addPC(c)
	default:
		atomic.AddInt64(&st.Unknown, 1)
		p.ex.addInconclusive("obligation " + site + ": solver unknown/timeout")
		p.unknownPC = true
		p.addPC(c)
	}
}

func (p *pathCtx) assume(c *Term) {
	if c.IsTrue() {
		return
	}
	if c.IsFalse() {
		p.abort("infeasible", "assume(false)")
	}
	if p.pos < len(p.prefix) {
		// feasibility was established when this prefix was first explored
		p.addPC(c)
		return
	}
	r := p.check(c, p.ex.cfg.BranchMs)
	if r == Unsat {
		p.abort("infeasible", "assumption infeasible")
	}
	if r == Unknown {
		p.unknownPC = true
	}
	p.addPC(c)
}

func (p *pathCtx) siteWanted(site string) bool {
	pre := p.ex.cfg.SitePrefix
	return pre == "" || strings.HasPrefix(site, pre)
}

func (p *pathCtx) reachMark(id string) {
	p.ex.mu.Lock()
	p.ex.reach[id]++
	first := p.ex.reach[id] == 1
	p.ex.mu.Unlock()
	if first && !p.unknownPC {
		// concrete witness
		r, m := p.checkModel(p.ts.True, p.ex.cfg.BranchMs)
		if r == Sat {
			nv := p.modelNondets(m)
			p.ex.mu.Lock()
			p.ex.reachSample[id] = nv
			p.ex.mu.Unlock()
		}
	}
}

// targetPanicOutcome is called when the harness thread dies with an uncaught target panic.
func (p *pathCtx) targetPanicOutcome(msg string) {
	st := p.ex.site("nopanic")
	atomic.AddInt64(&st.Evaluated, 1)
	atomic.AddInt64(&st.Symbolic, 1)
	r, m := p.checkModel(p.ts.True, p.ex.cfg.AssertMs)
	if r == Sat {
		atomic.AddInt64(&st.Violated, 1)
		p.violation("nopanic", "panic: "+msg, m)
	} else if r == Unknown {
		atomic.AddInt64(&st.Unknown, 1)
		p.ex.addInconclusive("panic path with unknown feasibility: " + msg)
	}
}
